"""Wallet properties C01 C02 C03 C04 C05 C06 C12 decided with Wallet.tla:
exhaustive TLC check of the bounded contract model, TLC-generated behaviours (per-property focus),
replay on the real keystore manager (harness/cmd/walletdrv), trace validation against WalletTrace.tla."""
import json, os, copy
import vlib
from vlib import log

# which conjunct classes of the trace specification speak for which property (used to describe a divergence)
FOCUS = {
    "C01": dict(gens=[("file", 22), ("keys", 20)], quick=80, thorough=1500, what="export/tamper/import histories over two wallets"),
    "C02": dict(gens=[("core", 16), ("keys", 16)], quick=50, thorough=1500, what="all wallet calls with restart projection after every step"),
    "C03": dict(gens=[("core", 16), ("file", 20), ("keys", 18)], quick=85, thorough=1500, what="passphrase arguments of every class; secrets in memory while locked"),
    "C04": dict(gens=[("core", 14), ("file", 14), ("keys", 16)], quick=55, thorough=800, what="clear-text scan of store, exports and log after every step"),
    "C05": dict(gens=[("core", 16), ("keys", 22)], quick=90, thorough=1200, what="every issued key signs verifiably iff unlocked, also after export / delete / import"),
    "C06": dict(gens=[("core", 16), ("file", 16), ("keys", 18)], quick=55, thorough=800, what="plot-key issuance interleaved with everything else"),
    "C12": dict(gens=[("fault", 12), ("fault2", 14)], quick=110, thorough=1200, what="faults at writes and commits of every mutating call"),
}


def desc(e):
    a = e.get("a") or e.get("t")
    args = ",".join("%s=%s" % (k, e[k]) for k in ("w", "s", "p", "q", "old", "new", "r", "b", "n", "i", "f", "fld") if k in e)
    s = "%s(%s)" % (a, args)
    if e.get("fault", "none") != "none":
        s += "!%s@%s%s" % (e["fault"], e.get("k"), "" if e.get("fired", True) else "(not fired)")
    if "res" in e:
        s += "=" + str(e["res"])
    return s


def expand_faults(behs, cap):
    """C12: TLC chose the call and the fault kind; sweep where the fault strikes.  All generated behaviours come
    first; a fifth of the remaining room goes to commit-index variants (an operation that wrongly commits in several
    transactions is hit at each of them), the rest to write-index variants of failwrite faults.  Variants are dealt
    round-robin over the behaviours, each behaviour starting its sweep at a different index, so that a cap cuts
    every sweep evenly and every index is tried on some behaviour."""
    out = list(behs)
    room = max(0, cap - len(out))

    def deal(sweeps, limit):
        got, r = [], 0
        while len(got) < limit and any(len(vs) > r for vs in sweeps):
            for vs in sweeps:
                if len(vs) > r and len(got) < limit:
                    got.append(vs[r])
            r += 1
        return got

    csweeps = []
    for b in behs:
        vs = []
        cidx = [i for i, st in enumerate(b) if st.get("fault") in ("failcommit", "crashbefore", "crashafter")]
        for i in cidx[:2]:
            for cn in (2, 3, 1):
                if cn != b[i].get("c"):
                    c = copy.deepcopy(b)
                    c[i]["c"] = cn
                    vs.append(c)
        csweeps.append(vs)
    out += deal(csweeps, room // 5)
    # operations that write many records (a new or imported keystore: some twenty writes) get most of the room: a
    # failed write strikes at one of 25 positions, and only a sweep reaches a particular one
    heavy, light = [], []
    for j, b in enumerate(behs):
        idx = [i for i, st in enumerate(b) if st.get("fault") == "failwrite"]
        vs = []
        for i in idx[:1]:
            for q in range(25):
                k = 1 + (q * 7 + j * 3) % 25        # every behaviour walks 1..25 in a different order
                if k != b[i].get("k"):
                    c = copy.deepcopy(b)
                    c[i]["k"] = k
                    vs.append(c)
        if vs:
            (heavy if b[idx[0]].get("t") in ("NewKs", "Import") else light).append(vs)
    room = cap - len(out)
    out += deal(heavy, (room * 2) // 3)
    out += deal(light, cap - len(out))
    out += deal(heavy, cap - len(out))      # whatever room is left
    return out[:cap]


def nontrivial(steps):
    ts = [s["t"] for s in steps]
    mut = any(t in ("NewKs", "NextAddr", "GenKey", "ChangePriv", "ChangePub", "Delete", "Import", "Remark") for t in ts)
    return mut and len(set(ts)) >= 4


def classify_rejection(prop, t, k):
    """describe a rejected step: which projection disagrees (a hint; the verdict is TLC's)"""
    evs = t["ev"]
    e = evs[k] if k < len(evs) else {}
    hints = []
    if e.get("res") == "died":
        hints.append("the process died inside the call")
    if str(e.get("res", "")).startswith("panic"):
        hints.append("the call panicked: " + str(e.get("res")))
    if e.get("clear"):
        hints.append("clear-text secret: " + "; ".join(e["clear"][:2]))
    if e.get("sigbad"):
        hints.append("bad signature: " + "; ".join(e["sigbad"][:2]))
    if e.get("keyok") is False:
        hints.append("key identity: " + str(e.get("keynote")))
    for w, sec in (e.get("sec") or {}).items():
        run = (e.get("run") or {}).get(w, {})
        if sec and run.get("locked", True):
            hints.append("secret material in memory while locked in %s: %s" % (w, ",".join(sec)))
    run, reo = e.get("run") or {}, e.get("reo") or {}
    for w in run:
        if w in reo and "ks" in run[w] and json.dumps(run[w]["ks"], sort_keys=True) != json.dumps(reo[w].get("ks"), sort_keys=True):
            hints.append("running instance and reopened store differ in %s" % w)
    return e, hints


def cause_of(e, hints):
    c = dict(cause="trace_rejected", action=e.get("a", "?"))
    if e.get("fault", "none") != "none" and e.get("fired"):
        c["fault"] = e["fault"]
    if any("memory while locked" in h for h in hints):
        c["cause"] = "secret_in_memory_while_locked"
    if e.get("a") == "Import" and e.get("res") == "ok":
        c["cause"] = "import_accepted"
    return c


def validate(v, prop, d, scen, traces):
    dead = [t for t in traces if t.get("dead")]
    if dead:
        raise vlib.Machinery("driver could not run %d scenarios: %s" % (len(dead), dead[0].get("note")))
    acc, hw, stats = vlib.tlc_validate(d, "WalletTrace.tla", "WalletTrace.cfg", [t["ev"] for t in traces], timeout=1800)
    v.cov["traces_validated_against_impl"] += len(traces)
    v.cov["trace_validation_states"] = v.cov.get("trace_validation_states", 0) + stats["states"]
    for i, tag in stats["flags"]:
        if i in acc or True:
            e = vlib.match_known(prop, dict(tag=tag)) or vlib.match_known(tag.split("-")[0], dict(tag=tag))
            if e:
                v.known(e, "scenario %d: %s (%s)" % (traces[i]["sc"], tag, e.get("what", "")[:90]))
            else:
                v.violation("scenario %d: deviation %s taken but not a listed finding" % (traces[i]["sc"], tag), dict(scenario=scen[i], tag=tag))
    for i, t in enumerate(traces):
        if i in acc:
            continue
        k = hw[i]
        e, hints = classify_rejection(prop, t, k)
        prefix = "; ".join(desc(x) for x in t["ev"][max(0, k - 5):k])
        d_ = "scenario %d: real wallet diverges from Wallet.tla at step %d %s%s (after: %s)" % (
            t["sc"], k + 1, desc(e), (" [" + " | ".join(hints) + "]") if hints else "", prefix)
        v.classify(cause_of(e, hints), d_, dict(scenario=scen[i], rejected_step=k + 1, event=e, hints=hints, conc=t.get("conc")))
    return acc


# C04 is anchored in api/wallets.go too (the export handler writes the file, the handlers log): for these properties
# every second scenario sends export / import / lock / unlock / passphrase changes through the gRPC handlers of
# api.Server over the same wallet
API_EVERY = {"C04": 2, "C03": 3, "C01": 4}


def mk_scen(behs, seed, start=0, api_every=0, walletopen=False):
    out = []
    for i, b in enumerate(behs):
        opt = dict(wallets=["w1", "w2"])
        if api_every and i % api_every == api_every - 1:
            opt["api"] = True
        if walletopen:
            opt["walletopen"] = True
        out.append(dict(sc=start + i + 1, seed=seed * 100003 + start + i, steps=b, opt=opt))
    return out


def run(prop, tier, seed):
    v = vlib.Verdict(prop, tier, seed)
    F = FOCUS[prop]
    d = vlib.scratch(prop.lower() + "-")
    vlib.prep_specs(d)
    drv = vlib.build("walletdrv")
    mc = vlib.tlc_mc(d, "WalletMC.tla", "WalletMCq.cfg" if tier == "quick" else "WalletMC.cfg", coverage=(tier == "thorough"), timeout=3000)
    vlib.require_mc_ok(mc, "WalletMC")
    v.cov["states"], v.cov["transitions"], v.cov["mc_depth"] = mc["distinct"], mc["states"], mc["depth"]
    log("MC: %d distinct states, %d transitions, depth %d, %.1fs" % (mc["distinct"], mc["states"], mc["depth"], mc["wall"]))
    behs = []
    n = F["quick"] if tier == "quick" else F["thorough"]
    for gi, (focus, depth) in enumerate(F["gens"]):
        cfg = "WalletGen_%s.cfg" % focus
        txt = open(os.path.join(d, cfg)).read().replace("GenLen = 16", "GenLen = %d" % depth)
        open(os.path.join(d, cfg), "w").write(txt)
        b, w = vlib.tlc_generate(d, "WalletGen.tla", cfg, n, depth, seed + 31 * gi)
        behs += b
    behs = vlib.dedup(behs)
    behs = behs[:({"C12": 220, "C03": 255}.get(prop, 160) if tier == "quick" else 4000)]
    if prop == "C12":
        behs = vlib.dedup(expand_faults(behs, 500 if tier == "quick" else 5000))
    # C02 is anchored in poc/wallet/wallet.go too: every fourth restart projection opens the copied store the way the node
    # does at start-up (wallet.NewPoCWallet on <MinerDir>/keystore)
    scen = mk_scen(behs, seed, api_every=API_EVERY.get(prop, 0), walletopen=(prop == "C02"))
    v.cov["scenarios_through_api_handlers"] = sum(1 for s in scen if s["opt"].get("api"))
    log("generated %d distinct behaviours (%d through the gRPC handlers)" % (len(scen), v.cov["scenarios_through_api_handlers"]))
    sf, tf = os.path.join(d, "scen.json"), os.path.join(d, "trace.ndjson")
    total_acc = 0
    for lo in range(0, len(scen), 600):
        part = scen[lo:lo + 600]
        json.dump(part, open(sf, "w"))
        out, w = vlib.run_driver(drv, sf, tf, ["-workers", str(min(vlib.NCPU, 14))], timeout=3000)
        traces = vlib.read_traces(tf)
        log("driver: %d scenarios in %.1fs" % (len(part), w))
        acc = validate(v, prop, d, part, traces)
        total_acc += len(acc)
        if lo == 0 and traces:
            v.cov["samples"].append([desc(e) for e in traces[0]["ev"]])
    v.cov["evaluations"] = len(scen)
    if prop in ("C05", "C06"):
        # C05 / C06 are anchored in capacity.go too: the real wallet behind the real keeper (SignHash through the keeper,
        # ordinals and keys in space ids and file names)
        import capacity
        v.cov["evaluations"] += capacity.keys_through_keeper(v, d, seed, tier, prop)
    v.cov["distinct_nontrivial"] = sum(1 for s in scen if nontrivial(s["steps"]))
    v.cov["traces_accepted"] = total_acc
    v.cov["rule"] = ("behaviours generated by TLC (-simulate, seeded) from WalletGen.tla, focus %s: %s; distinct by hash of the action "
                     "sequence; non-trivial = contains a mutating call and at least four different call types" % ([g[0] for g in F["gens"]], F["what"]))
    v.assumptions = ["scrypt cost lowered to N=16 through the exported keystore.DefaultScryptOptions",
                     "a copy of the store directory opened by a second instance stands for a restart",
                     "crashes are simulated at the transaction boundary of the wallet's storage interface (goleveldb's own recovery is trusted)",
                     "secret-in-memory projection comes from a verif-tagged in-package accessor"]
    return v.finish()


def replay(prop, path, seed):
    v = vlib.Verdict(prop, "quick", seed)
    d = vlib.scratch(prop.lower() + "r-")
    vlib.prep_specs(d)
    drv = vlib.build("walletdrv")
    r = json.load(open(path))["replay"]
    scen = [r["scenario"]]
    sf, tf = os.path.join(d, "scen.json"), os.path.join(d, "trace.ndjson")
    json.dump(scen, open(sf, "w"))
    vlib.run_driver(drv, sf, tf)
    traces = vlib.read_traces(tf)
    validate(v, prop, d, scen, traces)
    v.cov.update(states=1, transitions=1, evaluations=1, distinct_nontrivial=1)
    v.cov["samples"].append([desc(e) for e in traces[0]["ev"]])
    return v.finish()
