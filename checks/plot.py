"""C07 (a completed plot equals the construction) and C10 (interrupted plotting resumes to the same result, never
falsely complete, progress never ahead of durable data) decided with PlotTable.tla: exhaustive TLC check of the tiny
abstract construction with every window schedule, stop and crash point (both checkpoint rules: the fixed one holds,
the one found at the pinned commit is refuted - kept as a regression model), TLC-generated schedules run on the real
massdb.v1 plotter at bit lengths 8-11 (window sizes dictated through the verif hook, graceful stops, crash images
rebuilt from an strace log), traces validated against PlotTrace.tla."""
import json, os
import vlib
from vlib import log


def desc(e):
    return "bl=%s A-windows=%s B-windows=%s stops=%s crash=%s -> %s" % (e.get("bl"), e.get("aw"), e.get("bw"), e.get("stops"), e.get("crash"), e.get("res"))


def run(prop, tier, seed):
    v = vlib.Verdict(prop, tier, seed)
    d = vlib.scratch(prop.lower() + "-")
    vlib.prep_specs(d)
    drv = vlib.build("plotdrv")
    mc = vlib.tlc_mc(d, "PlotTableMC.tla", "PlotTableMC_end.cfg", timeout=1500)
    vlib.require_mc_ok(mc, "PlotTableMC (checkpoint = window end)")
    v.cov["states"], v.cov["transitions"], v.cov["mc_depth"] = mc["distinct"], mc["states"], mc["depth"]
    old = vlib.tlc_mc(d, "PlotTableMC.tla", "PlotTableMC_startPlus1.cfg", timeout=1500)
    v.cov["pinned_commit_rule_refuted_by_model"] = bool(old["violated"])
    log("MC PlotTable: %d distinct states (all P over N=4, 3 F, every window schedule / stop / crash); rule of the pinned commit refuted: %s"
        % (mc["distinct"], bool(old["violated"])))
    if tier == "thorough":
        m8 = vlib.tlc_mc(d, "PlotTableMC.tla", "PlotTableMC8.cfg", timeout=3000)
        vlib.require_mc_ok(m8, "PlotTableMC8")
        v.cov["states_N8"] = m8["distinct"]
    n = (120 if prop == "C10" else 150) if tier == "quick" else 2500
    behs, w = vlib.tlc_generate(d, "PlotGen.tla", "PlotGen.cfg", n, 2, seed)
    behs = vlib.dedup(behs)
    scen = []
    for i, b in enumerate(behs):
        st = b[0]
        if prop == "C07":
            st = dict(st, stops=[], crash=False)          # C07 is about completed plots under any window schedule
        elif i % 2 == 0:
            st = dict(st, crash=True)
        scen.append(dict(sc=i + 1, seed=seed * 100003 + i, steps=[st]))
    if prop == "C07" and tier == "thorough":
        scen.append(dict(sc=9000, seed=seed, steps=[dict(a="Plot", bl=16, aw=[3, 8], bw=[2, 3, 8], stops=[], crash=False)]))
    log("generated %d schedules" % len(scen))
    sf, tf = os.path.join(d, "scen.json"), os.path.join(d, "trace.ndjson")
    json.dump(scen, open(sf, "w"))
    out, w = vlib.run_driver(drv, sf, tf, ["-workers", str(min(vlib.NCPU, 12)), "-stall", "120"], timeout=2400)
    traces = vlib.read_traces(tf)
    # a driver process that died inside a schedule: run that schedule again on its own; the verdict is taken from a
    # run that shows what the real code does (a death that repeats is reported with the process's last output)
    for i, t in enumerate(traces):
        if t.get("died"):
            log("NOTE schedule %s: the driver process died (%s); running it again alone" % (t.get("sc"), (t.get("note") or "").strip().splitlines()[-1:] or "no output"))
            sf1, tf1 = os.path.join(d, "one.json"), os.path.join(d, "one.ndjson")
            json.dump([scen[i]], open(sf1, "w"))
            vlib.run_driver(drv, sf1, tf1, ["-workers", "1", "-stall", "120"], timeout=600)
            traces[i] = vlib.read_traces(tf1)[0]
            v.cov["schedules_rerun_after_process_death"] = v.cov.get("schedules_rerun_after_process_death", 0) + 1
    dead = [t for t in traces if t.get("dead")]
    if dead:
        raise vlib.Machinery("driver could not run %d scenarios: %s" % (len(dead), dead[0].get("note")))
    log("driver: %d schedules in %.1fs" % (len(traces), w))
    acc, hw, stats = vlib.tlc_validate(d, "PlotTrace.tla", "PlotTrace.cfg", [t["ev"] for t in traces], timeout=1500)
    v.cov["traces_validated_against_impl"] = len(traces)
    # a plot is deterministic given its schedule: a rejected schedule is run once more on its own, and the verdict is taken
    # from that run (what is observed through strace depends on the tracer too; a rejection that does not repeat is noted)
    rej = [i for i in range(len(traces)) if i not in acc]
    if rej and len(rej) <= 40:
        sf1, tf1 = os.path.join(d, "again.json"), os.path.join(d, "again.ndjson")
        json.dump([scen[i] for i in rej], open(sf1, "w"))
        vlib.run_driver(drv, sf1, tf1, ["-workers", str(min(vlib.NCPU, 4)), "-stall", "120"], timeout=1200)
        again = vlib.read_traces(tf1)
        acc2, hw2, st2 = vlib.tlc_validate(d, "PlotTrace.tla", "PlotTrace.cfg", [t["ev"] for t in again], timeout=900)
        for k, i in enumerate(rej):
            if k in acc2:
                log("NOTE schedule %s was rejected in the batch and accepted when run again alone (%s): not reported" % (traces[i].get("sc"), desc(traces[i]["ev"][0]) if traces[i]["ev"] else "-"))
                v.cov["rejections_not_reproduced"] = v.cov.get("rejections_not_reproduced", 0) + 1
                acc.add(i)
            else:
                traces[i] = again[k]
    images = 0
    for i, t in enumerate(traces):
        e = t["ev"][0] if t["ev"] else {}
        images += e.get("images", 0) or 0
        if i in acc:
            continue
        why = []
        if e.get("res") == "died":
            why.append("the process died while running this schedule, twice: %s" % (t.get("note") or "no output")[-700:])
        elif e.get("res") != "plotted":
            why.append("the schedule does not end in a plotted space: %s" % e.get("err"))
        for k in ("sound", "complete", "equal"):
            if e.get(k) is False:
                why.append("table not %s (%s)" % (k, e.get("note")))
        if e.get("badimages"):
            why.append("crash images: " + "; ".join(e["badimages"][:2]))
        if not why and "syscalls" in e:
            why.append("write / sync / checkpoint order violates the durability protocol: " +
                       " ".join("%s%s%s" % (x["e"], x.get("m", ""), ("=%s" % x["v"]) if "v" in x else "") for x in e["syscalls"][:24]))
        d_ = "scenario %d (%s): %s" % (t["sc"], desc(e), " | ".join(why) or str(e)[:300])
        ev_small = {k: e[k] for k in e if k != "syscalls"}
        v.classify(dict(cause="plot_rejected"), d_, dict(scenario=scen[i], event=ev_small))
    v.cov["crash_images_tested"] = images
    v.cov["evaluations"] = len(scen)
    v.cov["distinct_nontrivial"] = sum(1 for s in scen if len(s["steps"][0]["aw"]) > 1 or len(s["steps"][0]["bw"]) > 1 or s["steps"][0]["stops"])
    v.cov["samples"] = [desc(t["ev"][0]) + (" images=%s" % t["ev"][0].get("images") if "images" in t["ev"][0] else "") for t in traces[:5] if t["ev"]]
    v.cov["rule"] = ("schedules generated by TLC (PlotGen.tla, seeded): bit length 8-11, window sizes for both passes in eighths of the table, "
                     "windows at which a graceful stop is requested, traced runs with every crash image; non-trivial = more than one window or a stop")
    v.assumptions = ["window sizes are dictated through the verif memory hook (the arithmetic is the production code's)",
                     "crash model: an fsync makes earlier writes to that file durable; unsynced writes persist in no / all / any single / torn-half subset; "
                     "the 8-byte checkpoint is not torn; directory-entry durability is not modelled",
                     "reference table computed in the harness from the chain library's P and F, following PlotTable.tla",
                     "bit lengths 8-11 (16 in the thorough tier); a defect that needs >= 2^32 records is out of reach"]
    return v.finish()


def replay(prop, path, seed):
    v = vlib.Verdict(prop, "quick", seed)
    d = vlib.scratch(prop.lower() + "r-")
    vlib.prep_specs(d)
    drv = vlib.build("plotdrv")
    r = json.load(open(path))["replay"]
    scen = [r["scenario"]]
    sf, tf = os.path.join(d, "scen.json"), os.path.join(d, "trace.ndjson")
    json.dump(scen, open(sf, "w"))
    vlib.run_driver(drv, sf, tf, ["-workers", "1"])
    traces = vlib.read_traces(tf)
    acc, hw, stats = vlib.tlc_validate(d, "PlotTrace.tla", "PlotTrace.cfg", [t["ev"] for t in traces])
    if 0 not in acc:
        v.classify(dict(cause="plot_rejected"), "replayed schedule rejected: " + desc(traces[0]["ev"][0]), dict(scenario=scen[0]))
    v.cov.update(states=1, transitions=1, evaluations=1, distinct_nontrivial=1, samples=["replay"])
    return v.finish()
