"""C15: capacity configuration honours the requested size and reuses spaces.  Capacity.tla: contract (Good*) and the
code's greedy mechanism; TLC checks mechanism => contract exhaustively on the bounded model; TLC-generated request
sequences run on the real keeper (real massdb.v1 backend, requests made the way the API makes them); traces
validated against the contract."""
import json, os
import vlib
from vlib import log


def desc(e):
    a = e.get("a")
    arg = e.get("t", e.get("ts", e.get("counts", e.get("o", ""))))
    if a == "ByPath":
        arg = "%s:%s" % (e.get("dirs"), e.get("ts"))
    s = "%s(%s)=%s" % (a, arg, e.get("res"))
    return s


def validate(v, d, scen, traces):
    dead = [t for t in traces if t.get("dead")]
    if dead:
        raise vlib.Machinery("driver could not run %d scenarios: %s" % (len(dead), dead[0].get("note")))
    acc, hw, stats = vlib.tlc_validate(d, "CapacityTrace.tla", "CapacityTrace.cfg", [t["ev"] for t in traces], timeout=1500)
    v.cov["traces_validated_against_impl"] += len(traces)
    for i, t in enumerate(traces):
        if i in acc:
            continue
        k = hw[i]
        e = t["ev"][k] if k < len(t["ev"]) else {}
        sel = [(s["o"], s["bl"], s["d"]) for s in e.get("sel", [])]
        d_ = "scenario %d: real keeper breaks the capacity contract at step %d %s: selection %s, %d indexed, %d file pairs (after: %s)" % (
            t["sc"], k + 1, desc(e), sel[:12], len(e.get("idx", [])), len(e.get("files", [])), "; ".join(desc(x) for x in t["ev"][max(0, k - 5):k]))
        v.classify(dict(cause="trace_rejected", action=e.get("a")), d_, dict(scenario=scen[i], rejected_step=k + 1, event=e))
    return acc


def proof_list(v, d, seed, tier):
    """C15, configuration at start-up: config.DecodeProofList (config/util.go) on every case of ProofList.tla"""
    drv = vlib.build("gatewaydrv")
    cases, w = vlib.tlc_enumerate(d, "ProofListMC.tla", "ProofListMC.cfg", timeout=300)
    frames = [b[0]["frame"] for b in cases]
    reps = 2 if tier == "quick" else 10
    scen = [dict(sc=80000 + i, seed=seed * 7919 + 3 + i, steps=[dict(a="ProofList", frame=f) for f in frames[i::4]], opt=dict(reps=reps)) for i in range(4)]
    sf, tf = os.path.join(d, "pl.json"), os.path.join(d, "pl.ndjson")
    json.dump(scen, open(sf, "w"))
    vlib.run_driver(drv, sf, tf, ["-workers", "4", "-stall", "60"], timeout=600)
    traces = vlib.read_traces(tf)
    dead = [t for t in traces if t.get("dead")]
    if dead:
        raise vlib.Machinery("driver could not run %d proof-list scenarios: %s" % (len(dead), dead[0].get("note")))
    pending = [(t["sc"], t["ev"]) for t in traces]
    n = sum(len(ev) for _, ev in pending)
    rounds = 0
    while pending and rounds < 40:
        rounds += 1
        acc, hw, stats = vlib.tlc_validate(d, "ProofListTrace.tla", "ProofListTrace.cfg", [ev for _, ev in pending], timeout=600)
        nxt = []
        for i, (sc, ev) in enumerate(pending):
            if i in acc:
                continue
            k = hw[i]
            e = ev[k] if k < len(ev) else {}
            v.classify(dict(cause="proof_list", input=e.get("input")),
                       "proof list %r (case %s): DecodeProofList gave ok=%s %s%s" % (e.get("input"), json.dumps(e.get("frame")), e.get("ok"), e.get("pairs"), (" panic " + e["panic"]) if e.get("panic") else ""),
                       dict(scenario=dict(sc=sc, seed=seed, steps=[dict(a="ProofList", frame=e.get("frame"))], opt=dict(reps=3, kind="prooflist")), event=e))
            if k + 1 < len(ev):
                nxt.append((sc, ev[k + 1:]))
        pending = nxt
    log("proof list: %d cases, %d decodes" % (len(frames), n))
    v.cov["proof_list_cases"] = len(frames)
    return n


def keys_through_keeper(v, d, seed, tier, prop="C06"):
    """C06 (and the keeper half of C05): the real wallet behind the real keeper.  Request sequences with restarts; the
    ordinal and key in the wallet, in the keeper's space id and in the plot file names must agree, a restarted node
    must recognise every plot file again, and every space must sign under its key.  Only those aspects are reported
    here; the capacity contract itself belongs to C15."""
    drv = vlib.build("capdrv")
    behs, w = vlib.tlc_generate(d, "CapacityGen.tla", "CapacityGen.cfg", 40 if tier == "quick" else 600, 10, seed + 99)
    scen = [dict(sc=50000 + i, seed=seed * 100003 + i, steps=b, opt=dict(realwallet=True)) for i, b in enumerate(vlib.dedup(behs))]
    sf, tf = os.path.join(d, "rw.json"), os.path.join(d, "rw.ndjson")
    json.dump(scen, open(sf, "w"))
    vlib.run_driver(drv, sf, tf, ["-workers", str(min(vlib.NCPU, 12)), "-stall", "60"], timeout=1200)
    traces = vlib.read_traces(tf)
    dead = [t for t in traces if t.get("dead")]
    if dead:
        raise vlib.Machinery("driver could not run %d scenarios: %s" % (len(dead), dead[0].get("note")))
    acc, hw, stats = vlib.tlc_validate(d, "CapacityTrace.tla", "CapacityTrace.cfg", [t["ev"] for t in traces], timeout=1500)
    v.cov["traces_validated_against_impl"] += len(traces)
    for i, t in enumerate(traces):
        if i in acc:
            continue
        k = hw[i]
        e = t["ev"][k] if k < len(t["ev"]) else {}
        d_ = "scenario %d (real wallet behind the real keeper): step %d %s: selection %s, index %s, files %s, signing %s" % (
            t["sc"], k + 1, desc(e), [(s["o"], s["bl"]) for s in e.get("sel", [])][:10], [(s["o"], s["bl"]) for s in e.get("idx", [])][:10],
            [(s["o"], s["bl"]) for s in e.get("files", [])][:10], e.get("signbad") or e.get("signok"))
        # attribution only (the rejection is TLC's): does the disagreement concern keys / ordinals?
        pairs = lambda xs: sorted((x.get("o"), x.get("bl")) for x in xs or [])
        keyish = pairs(e.get("idx")) != pairs(e.get("files")) or any(p_ not in pairs(e.get("files")) for p_ in pairs(e.get("sel")))
        mine = (e.get("signok") is False or bool(e.get("walleterr"))) if prop == "C05" else (
            e.get("a") == "Restart" or e.get("signok") is False or e.get("walleterr") or keyish)
        if mine:
            v.classify(dict(cause="keys_through_keeper", action=e.get("a")), d_, dict(scenario=scen[i], rejected_step=k + 1, event=e))
        else:
            log("NOTE (not %s's): " % prop + d_[:300])
    log("real wallet behind the real keeper: %d request sequences with restarts" % len(scen))
    v.cov["keeper_with_real_wallet_scenarios"] = len(scen)
    return len(scen)


def run(prop, tier, seed):
    v = vlib.Verdict(prop, tier, seed)
    d = vlib.scratch("c15-")
    vlib.prep_specs(d)
    drv = vlib.build("capdrv")
    mc = vlib.tlc_mc(d, "CapacityMC.tla", "CapacityMC.cfg", timeout=1500)
    vlib.require_mc_ok(mc, "CapacityMC")
    v.cov["states"], v.cov["transitions"], v.cov["mc_depth"] = mc["distinct"], mc["states"], mc["depth"]
    log("MC Capacity (mechanism satisfies contract): %d distinct states, %.1fs" % (mc["distinct"], mc["wall"]))
    n = 150 if tier == "quick" else 3000
    behs = []
    for s2 in range(1 if tier == "quick" else 3):
        b, w = vlib.tlc_generate(d, "CapacityGen.tla", "CapacityGen.cfg", n, 10, seed + 31 * s2)
        behs += b
    behs = vlib.dedup(behs)
    scen = [dict(sc=i + 1, seed=seed * 100003 + i, steps=b) for i, b in enumerate(behs)]
    # every fourth sequence runs with the real wallet (real keystore manager on a real store, reopened at every
    # Restart) behind the keeper: ordinals and keys of wallet, keeper and file names must agree, spaces must sign
    for s_ in scen[::4]:
        s_["opt"] = dict(realwallet=True)
    log("generated %d request sequences" % len(scen))
    sf, tf = os.path.join(d, "scen.json"), os.path.join(d, "trace.ndjson")
    total = 0
    for lo in range(0, len(scen), 500):
        part = scen[lo:lo + 500]
        json.dump(part, open(sf, "w"))
        out, w = vlib.run_driver(drv, sf, tf, ["-workers", str(min(vlib.NCPU, 12)), "-stall", "60"], timeout=1200)
        traces = vlib.read_traces(tf)
        log("driver: %d scenarios in %.1fs" % (len(part), w))
        total += len(validate(v, d, part, traces))
        if lo == 0 and traces:
            v.cov["samples"].append([desc(e) + " -> sel " + str([(s["o"], s["bl"], s["d"]) for s in e["sel"]][:8]) for e in traces[0]["ev"]])
    v.cov["evaluations"] = len(scen) + proof_list(v, d, seed, tier)
    v.cov["distinct_nontrivial"] = sum(1 for s in scen if len({x["a"] for x in s["steps"]}) >= 3)
    v.cov["traces_accepted"] = total
    v.cov["rule"] = ("sequences of 10 requests generated by TLC (-simulate, seeded): BySize / ByPath / ByBitLength with targets at, just below and "
                     "just above plot-size multiples, Remove, Delete, keeper restart, beyond-free-disk and overflowing sizes; non-trivial = at least 3 request kinds")
    v.assumptions = ["plot files are header-only (real massdb.v1 CreateDB); no plotting happens", "scripted wallet that persists across keeper restarts",
                     "requests are issued as the API issues them (admission check of api/util.go, then the keeper); free disk is read at run time"]
    return v.finish()


def replay(prop, path, seed):
    v = vlib.Verdict(prop, "quick", seed)
    d = vlib.scratch("c15r-")
    vlib.prep_specs(d)
    drv = vlib.build("capdrv")
    r = json.load(open(path))["replay"]
    if r["scenario"]["steps"] and r["scenario"]["steps"][0].get("a") == "ProofList":
        gdrv = vlib.build("gatewaydrv")
        sf, tf = os.path.join(d, "pl.json"), os.path.join(d, "pl.ndjson")
        json.dump([r["scenario"]], open(sf, "w"))
        vlib.run_driver(gdrv, sf, tf, ["-workers", "1"])
        traces = vlib.read_traces(tf)
        acc, hw, stats = vlib.tlc_validate(d, "ProofListTrace.tla", "ProofListTrace.cfg", [t["ev"] for t in traces], timeout=300)
        if 0 not in acc:
            e = traces[0]["ev"][hw[0]] if hw[0] < len(traces[0]["ev"]) else {}
            v.classify(dict(cause="proof_list", input=e.get("input")), "replay: proof list %r gave ok=%s %s" % (e.get("input"), e.get("ok"), e.get("pairs")), dict(scenario=r["scenario"], event=e))
        v.cov.update(states=1, transitions=1, evaluations=1, distinct_nontrivial=1, samples=["replay"])
        return v.finish()
    scen = [r["scenario"]]
    sf, tf = os.path.join(d, "scen.json"), os.path.join(d, "trace.ndjson")
    json.dump(scen, open(sf, "w"))
    vlib.run_driver(drv, sf, tf, ["-workers", "1"])
    validate(v, d, scen, vlib.read_traces(tf))
    v.cov.update(states=1, transitions=1, evaluations=1, distinct_nontrivial=1, samples=["replay"])
    return v.finish()
