"""C17: cluster tasks reach the right collectors and reports the right task.  Fractal.tla: superior, relays and leaf
collectors; TLC checks the routing invariants exhaustively on the bounded model; TLC simulates the specification to
produce behaviours, which run on the real LocalSuperior + CollectorPool (loopback TCP) + PersistentRemoteSuperior
relays + scripted collectors; the recorded traces are validated against the specification.  Fixed schedules with
goroutines parked at chosen points cover the stop / removal clauses."""
import json, os
import vlib
from vlib import log

HOME = dict(c1="S", c2="S", c3="r1", c4="r1", c5="r2", c6="r3", l1="S", l2="r3")
RHOME = dict(r1="S", r2="S", r3="r1")
SPECIAL = ["Wedge", "DupBroadcast", "PoolStop", "PoolStopConnected", "BadFrame", "Reborn"]


def desc(e):
    a = e.get("a")
    arg = ",".join(str(e[k]) for k in ("c", "r", "t", "tg", "ps") if k in e)
    r = e.get("res")
    if a == "Take" and r == "item":
        r = "%s from %s" % (e.get("p"), e.get("src"))
    return "%s(%s)=%s" % (a, arg, r)


def validate(v, d, scen, traces):
    dead = [t for t in traces if t.get("dead")]
    if dead:
        raise vlib.Machinery("driver could not run %d scenarios: %s" % (len(dead), dead[0].get("note")))
    acc, hw, stats = vlib.tlc_validate(d, "FractalTrace.tla", "FractalTrace.cfg", [t["ev"] for t in traces], timeout=1500)
    v.cov["traces_validated_against_impl"] += len(traces)
    for i, t in enumerate(traces):
        if i in acc:
            continue
        k = hw[i]
        e = t["ev"][k] if k < len(t["ev"]) else {}
        d_ = "scenario %d: the real superior / pool / relay diverge from Fractal.tla at step %d %s; handed over so far %s (after: %s)" % (
            t["sc"], k + 1, desc(e), json.dumps(e.get("got")), "; ".join(desc(x) for x in t["ev"][max(0, k - 6):k]))
        v.classify(dict(cause="trace_rejected", action=e.get("a"), res=str(e.get("res"))), d_, dict(scenario=scen[i], rejected_step=k + 1, event=e))
    return acc


def special(v, d, drv, seed, modes=SPECIAL, reps=1):
    """fixed schedules; each verdict is read off what the real code did"""
    scen = [dict(sc=i + 1, seed=seed * 1009 + i, steps=[], opt=dict(mode=m, home=HOME, rhome=RHOME)) for i, m in enumerate(modes * reps)]
    sf, tf = os.path.join(d, "special.json"), os.path.join(d, "special.ndjson")
    json.dump(scen, open(sf, "w"))
    vlib.run_driver(drv, sf, tf, ["-workers", "6", "-stall", "80"], timeout=600)
    for s, t in zip(scen, vlib.read_traces(tf)):
        m = s["opt"]["mode"]
        if t.get("dead") or not t["ev"]:
            raise vlib.Machinery("schedule %s did not run: %s" % (m, t.get("note")))
        e = t["ev"][-1]
        rp = dict(scenario=s, event=e)
        if e.get("res") != "ok":
            v.classify(dict(tag="C17-%s-%s" % (m, "panic" if str(e.get("res")).startswith("panic") or e.get("res") == "died" else "failed")),
                       "schedule %s: %s" % (m, e.get("res")), rp)
            continue
        if m == "Wedge":
            pr = str(e.get("parked_report"))
            if pr.startswith("panic"):
                v.classify(dict(tag="C17-report-panics-on-removed-task"), "a report parked in the send to a full task channel panics when the task is removed: %s" % pr, rp)
            elif not e.get("remove_prompt") or not e.get("add_other_prompt"):
                v.classify(dict(tag="C17-report-blocks-holding-task-lock"),
                           "with 10 unread reports the 11th is parked holding the task lock: RemoveTask prompt=%s, AddTask of another task prompt=%s" % (
                               e.get("remove_prompt"), e.get("add_other_prompt")), rp)
        elif m == "DupBroadcast":
            if e.get("handed") != 1:
                v.classify(dict(tag="C17-duplicate-broadcast-on-subscribe-race", handed=e.get("handed")),
                           "a collector subscribing while a broadcast task is added is handed the task %s times" % e.get("handed"), rp)
        elif m == "Reborn":
            ok = (e.get("connect") == "ok" and e.get("pool_noticed") and e.get("reborn") and e.get("sync_after") and e.get("new_id")
                  and e.get("t1_before") == 1 and e.get("t1_after") == 2 and e.get("add_t2") == "ok" and e.get("t2") == 1
                  and e.get("report") == "ok" and e.get("take") == "item/r1/p4" and e.get("disconnect") == "ok" and e.get("prompt")
                  and "arrived=yes" in str(e.get("lane_ordinary")) and "arrived=yes" in str(e.get("lane_priority")))
            if not ok:
                v.classify(dict(tag="C17-relay-does-not-recover-from-connection-loss"),
                           "a relay whose connection was reset and which stayed up: %s" % json.dumps({k: e[k] for k in e if k not in ("a", "step", "res")}, sort_keys=True), rp)
        elif m == "BadFrame":
            if not e.get("count_prompt") or e.get("count") != 0 or e.get("connect_after") != "ok" or not e.get("prompt"):
                v.classify(dict(tag="C17-undecodable-frame-wedges-pool"),
                           "after one undecodable frame followed by 14 more frames from the same peer: pool.Count() answered=%s (%s collectors), a new relay connects=%s, pool stop prompt=%s" % (
                               e.get("count_prompt"), e.get("count"), e.get("connect_after"), e.get("prompt")), rp)
        else:
            if not e.get("prompt") or e.get("connect", "ok") != "ok":
                v.classify(dict(tag="C17-pool-stop-hangs"), "schedule %s: stopping the collector pool did not return within 2 s (connect=%s)" % (m, e.get("connect")), rp)
    v.cov["evaluations"] += len(scen)
    v.cov["samples"].append(["fixed schedules: " + ", ".join(modes)])


def keepalive(v, d, seed, tier, only=None):
    """connection loss without a reset (KeepAlive.tla): every scenario of modes / dark path / data plan on two real
    connection.Conn ends through a forwarder that can go dark; stop times against the specification"""
    drv = vlib.build("codecdrv")
    mk = vlib.tlc_mc(d, "KeepAlive.tla", "KeepAlive.cfg", timeout=300)
    vlib.require_mc_ok(mk, "KeepAlive (no spurious drop, a dead peer is noticed within the timeout)")
    v.cov["keepalive_states"] = mk["distinct"]
    if only is None:
        cases, w = vlib.tlc_enumerate(d, "KeepAliveMC.tla", "KeepAliveMC.cfg", timeout=300)
        frames = [b[0]["frame"] for b in cases]
    else:
        frames = [only]
    reps = 1 if tier == "quick" else 5
    nsc = min(16, len(frames))
    scen = [dict(sc=80000 + i, seed=seed * 7919 + i, steps=[dict(a="KeepAlive", frame=f) for f in frames[i::nsc]], opt=dict(reps=reps)) for i in range(nsc)]
    sf, tf = os.path.join(d, "ka.json"), os.path.join(d, "ka.ndjson")
    json.dump(scen, open(sf, "w"))
    out, w = vlib.run_driver(drv, sf, tf, ["-workers", str(nsc), "-stall", "60"], timeout=1200)
    traces = vlib.read_traces(tf)
    dead = [t for t in traces if t.get("dead")]
    if dead:
        raise vlib.Machinery("keep-alive scenarios did not run: %s" % dead[0].get("note"))
    evs = []
    for t in traces:
        for e in t["ev"]:
            if e.get("a") != "KeepAlive":
                continue
            if e.get("res") == "died" or "stopA10" not in e or e.get("note"):
                # the driver process died inside this scenario: run it again on its own; the verdict is taken from a run
                # that shows what the real code does (a death that repeats is a panic of the code under test)
                log("NOTE keep-alive scenario %s: %s (%s); running it again alone" % (
                    json.dumps(e.get("frame"), sort_keys=True), "could not be set up" if e.get("note") else "the driver process died",
                    e.get("note") or " | ".join(x.strip() for x in ((t.get("note") or "").strip().splitlines() or ["no output"])[-14:] if not x.startswith("time="))[:1500]))
                v.cov["keepalive_reruns_after_process_death"] = v.cov.get("keepalive_reruns_after_process_death", 0) + 1
                sf1, tf1 = os.path.join(d, "ka1.json"), os.path.join(d, "ka1.ndjson")
                json.dump([dict(sc=89999, seed=seed, steps=[dict(a="KeepAlive", frame=e.get("frame"))], opt=dict(reps=1))], open(sf1, "w"))
                vlib.run_driver(drv, sf1, tf1, ["-workers", "1", "-stall", "60"], timeout=300)
                t1 = vlib.read_traces(tf1)[0]
                e1 = ([x for x in t1["ev"] if x.get("a") == "KeepAlive"] or [{}])[-1]
                if e1.get("note"):
                    raise vlib.Machinery("keep-alive scenario could not be set up, twice: %s" % e1.get("note"))
                if e1.get("res") == "died" or "stopA10" not in e1:
                    v.classify(dict(cause="keepalive_died", frame=json.dumps(e.get("frame"), sort_keys=True)),
                               "keep-alive scenario %s: the process died, twice: %s" % (json.dumps(e.get("frame"), sort_keys=True), (t1.get("note") or "no output")[-900:]),
                               dict(scenario=dict(sc=1, seed=seed, steps=[dict(a="KeepAlive", frame=e.get("frame"))], opt=dict(mode="keepalive")), event=e1))
                    continue
                e = e1
            evs.append(e)
    bad = [e for e in evs if e.get("note")]
    if bad:
        raise vlib.Machinery("keep-alive scenario could not be set up: %s" % bad[0].get("note"))
    acc, hw, stats = vlib.tlc_validate(d, "KeepAliveTrace.tla", "KeepAliveTrace.cfg", [[e] for e in evs], timeout=900)
    v.cov["traces_validated_against_impl"] += len(evs)
    # Stop times are real time (ticks of 100 ms).  A scenario the specification rejects is run again on its own; it is judged
    # only by a run in which the driver process kept time (its 5 ms sleeper never overslept by more than 40 ms): on a
    # machine too busy for that, stop times say nothing about the code under test, and the scenario is counted as not
    # judged.
    LATE = 40
    rejected = [i for i in range(len(evs)) if i not in acc]
    for i in rejected[:24]:
        judged = None
        for attempt in range(3):
            sf1, tf1 = os.path.join(d, "ka2.json"), os.path.join(d, "ka2.ndjson")
            json.dump([dict(sc=89000 + i, seed=seed + attempt, steps=[dict(a="KeepAlive", frame=evs[i].get("frame"))], opt=dict(reps=1))], open(sf1, "w"))
            vlib.run_driver(drv, sf1, tf1, ["-workers", "1", "-stall", "60"], timeout=300)
            e1 = ([x for x in vlib.read_traces(tf1)[0]["ev"] if x.get("a") == "KeepAlive"] or [{}])[-1]
            if "stopA10" not in e1 or e1.get("note") or e1.get("late_ms", 0) > LATE:
                continue
            a1, _, _ = vlib.tlc_validate(d, "KeepAliveTrace.tla", "KeepAliveTrace.cfg", [[e1]], timeout=300)
            judged = (0 in a1, e1)
            break
        if judged is None:
            v.cov["keepalive_not_judged_machine_too_busy"] = v.cov.get("keepalive_not_judged_machine_too_busy", 0) + 1
            log("NOTE keep-alive scenario %s: rejected in the batch (process overslept by %s ms), and no run on its own kept time: not judged" % (
                json.dumps(evs[i].get("frame"), sort_keys=True), evs[i].get("late_ms")))
            acc.add(i)
        elif judged[0]:
            v.cov["keepalive_rejections_not_reproduced"] = v.cov.get("keepalive_rejections_not_reproduced", 0) + 1
            log("NOTE keep-alive scenario %s: rejected in the batch (process overslept by %s ms), accepted when run alone: not reported" % (
                json.dumps(evs[i].get("frame"), sort_keys=True), evs[i].get("late_ms")))
            acc.add(i)
        else:
            evs[i] = judged[1]
    for i, e in enumerate(evs):
        if i not in acc:
            f = e.get("frame", {})
            v.classify(dict(cause="keepalive", frame=json.dumps(f, sort_keys=True)),
                       "keep-alive, ends %s/%s, path dark after tick %s, data %s: the ends stopped at %s / %s tenths of a tick (-1: never), stop on request prompt=%s: not what KeepAlive.tla fixes" % (
                           f.get("modeA"), f.get("modeB"), f.get("hole"), f.get("data"), e.get("stopA10"), e.get("stopB10"), e.get("ok")),
                       dict(scenario=dict(sc=1, seed=seed, steps=[dict(a="KeepAlive", frame=f)], opt=dict(mode="keepalive")), event=e))
    v.cov["keepalive_scenarios"], v.cov["keepalive_accepted"] = len(evs), len(acc)
    v.cov["evaluations"] += len(evs)
    log("keep-alive: %d scenarios on real connections in %.1fs, %d accepted" % (len(evs), w, len(acc)))


def run(prop, tier, seed):
    v = vlib.Verdict(prop, tier, seed)
    d = vlib.scratch("c17-")
    vlib.prep_specs(d)
    drv = vlib.build("fractaldrv")
    mc = vlib.tlc_mc(d, "FractalMC.tla", "FractalMCq.cfg" if tier == "quick" else "FractalMC.cfg", timeout=1500)
    vlib.require_mc_ok(mc, "FractalMC")
    v.cov["states"], v.cov["transitions"], v.cov["mc_depth"] = mc["distinct"], mc["states"], mc["depth"]
    log("MC Fractal (routing invariants): %d distinct states, %.1fs" % (mc["distinct"], mc["wall"]))
    # the mechanism model of LocalSuperior's locks shows both listed findings as reachable (the fixed schedules below
    # are its counterexamples run on the real code); if it stopped doing so the model would be vacuous about them
    for cfg, what in (("FractalImplDup.cfg", "duplicate hand-over on subscribe during AddTask"), ("FractalImplWedge.cfg", "report parked holding the task lock")):
        mi = vlib.tlc_mc(d, "FractalImpl.tla", cfg, timeout=600)
        v.cov["impl_" + cfg.replace(".cfg", "") + "_reachable"] = bool(mi["violated"])
        if not mi["violated"]:
            raise vlib.Machinery("FractalImpl.tla no longer reaches: " + what)
    # one direction of a connection (Conn.tla): per-lane order for both receive rules; a stop completes with the
    # repaired rule and is refuted for the pinned one (its counterexample is the BadFrame schedule below)
    cg = vlib.tlc_mc(d, "Conn.tla", "Conn_guarded.cfg", timeout=600)
    vlib.require_mc_ok(cg, "Conn (guarded receive)")
    cu = vlib.tlc_mc(d, "Conn.tla", "Conn_unguarded.cfg", timeout=600)
    v.cov["conn_unguarded_receive_refuted"] = bool(cu["violated"])
    if not cu["violated"]:
        raise vlib.Machinery("Conn.tla with the unguarded receive rule no longer shows the stop that never completes")
    special(v, d, drv, seed, reps=1 if tier == "quick" else 5)
    keepalive(v, d, seed, tier)
    n = 120 if tier == "quick" else 2500
    behs = []
    for s2 in range(1 if tier == "quick" else 3):
        b, w = vlib.tlc_generate(d, "FractalGen.tla", "FractalGen.cfg", n, 24, seed + 31 * s2)
        behs += b
    behs = vlib.dedup(behs)
    scen = [dict(sc=i + 1, seed=seed * 100003 + i, steps=b, opt=dict(home=HOME, rhome=RHOME)) for i, b in enumerate(behs)]
    log("generated %d behaviours" % len(scen))
    sf, tf = os.path.join(d, "scen.json"), os.path.join(d, "trace.ndjson")
    total = 0
    for lo in range(0, len(scen), 500):
        part = scen[lo:lo + 500]
        json.dump(part, open(sf, "w"))
        out, w = vlib.run_driver(drv, sf, tf, ["-workers", str(min(vlib.NCPU, 8)), "-stall", "60"], timeout=1500)
        traces = vlib.read_traces(tf)
        log("driver: %d scenarios in %.1fs" % (len(part), w))
        total += len(validate(v, d, part, traces))
        if lo == 0 and traces:
            v.cov["samples"].append([desc(e) for e in traces[0]["ev"]])
    if tier == "thorough":
        # the same behaviours on a race-detector build: informational (C17 does not speak of data races)
        race = vlib.build("fractaldrv", race=True)
        part = scen[:300]
        json.dump(part, open(sf, "w"))
        if os.path.exists(tf + ".races"):
            os.remove(tf + ".races")
        vlib.run_driver(race, sf, tf, ["-workers", str(min(vlib.NCPU, 8)), "-stall", "120"], timeout=2400)
        sites = []
        if os.path.exists(tf + ".races"):
            import walletconc
            sites = walletconc.race_sites(open(tf + ".races").read(), "fractal")
        v.cov["race_sites_fractal"] = [list(x) for x in sites]
        for st in sites:
            log("NOTE race detector (fractal): %s" % (st,))
    # M6: link outages of relays that stay up (each recovery waits for the relay's 30 s retry interval, so these are few)
    nout = 12 if tier == "quick" else 84
    ob, w = vlib.tlc_generate(d, "FractalGen.tla", "FractalGenOut.cfg", nout * 3, 28, seed + 977)
    ob = [b for b in vlib.dedup(ob) if any(x["a"] == "Outage" for x in b)]
    ob.sort(key=lambda b: -sum(1 for x in b if x["a"] in ("Recover", "Outage")))
    oscen = [dict(sc=len(scen) + i + 1, seed=seed * 100003 + 50000 + i, steps=b, opt=dict(home=HOME, rhome=RHOME)) for i, b in enumerate(ob[:nout])]
    if oscen:
        json.dump(oscen, open(sf, "w"))
        out, w = vlib.run_driver(drv, sf, tf, ["-workers", str(min(vlib.NCPU, 14, len(oscen))), "-stall", "90"], timeout=2400)
        traces = vlib.read_traces(tf)
        log("driver (outages): %d scenarios in %.1fs" % (len(oscen), w))
        total += len(validate(v, d, oscen, traces))
        v.cov["outage_scenarios"] = len(oscen)
        v.cov["outage_recoveries"] = sum(1 for t in traces for e in t["ev"] if e.get("a") == "Recover" and e.get("res") == "ok")
        v.cov["reports_lost_over_broken_links"] = sum(1 for t in traces for e in t["ev"] if e.get("res") == "lost")
        scen = scen + oscen
    v.cov["evaluations"] += len(scen)
    v.cov["distinct_nontrivial"] = sum(1 for s in scen if any(x["a"] == "Report" and len(x["ps"]) > 1 for x in s["steps"]) and any(x["a"] == "Connect" for x in s["steps"]))
    v.cov["traces_accepted"] = total
    v.cov["rule"] = ("behaviours of 24 public calls obtained by simulating Fractal.tla in TLC (seeded): subscribe / unsubscribe of 5 leaf collectors (2 at the superior, "
                     "3 behind 2 relays), relay connect / disconnect over loopback TCP, broadcast and targeted tasks, report bursts of 1-3 distinct payloads (also to unknown "
                     "and removed tasks), waiter reads, task removal; behaviours of 28 calls with up to two link outages of relays that stay up and dial again (reports from below are lost "
                     "meanwhile, the current task is handed over again on recovery); plus fixed schedules with parked goroutines (full channel then removal, subscribe during broadcast, "
                     "pool stop); non-trivial = has a relay and a multi-report burst")
    v.assumptions = ["collectors are scripted (the fractal.Collector interface); LocalCollector's slot loop is not run",
                     "steps are issued one at a time and the pipelines are drained between steps (marker reports, relay probes); only the fixed schedules overlap calls",
                     "task channels are never overfilled by generated behaviours (the full-channel schedule is separate)"]
    return v.finish()


def replay(prop, path, seed):
    v = vlib.Verdict(prop, "quick", seed)
    d = vlib.scratch("c17r-")
    vlib.prep_specs(d)
    drv = vlib.build("fractaldrv")
    r = json.load(open(path))["replay"]
    s = r["scenario"]
    if s.get("opt", {}).get("mode") == "keepalive":
        keepalive(v, d, seed, "quick", only=s["steps"][0]["frame"])
    elif s.get("opt", {}).get("mode"):
        special(v, d, drv, seed, modes=[s["opt"]["mode"]])
    else:
        scen = [s]
        sf, tf = os.path.join(d, "scen.json"), os.path.join(d, "trace.ndjson")
        json.dump(scen, open(sf, "w"))
        vlib.run_driver(drv, sf, tf, ["-workers", "1"])
        validate(v, d, scen, vlib.read_traces(tf))
    v.cov.update(states=1, transitions=1, evaluations=1, distinct_nontrivial=1, samples=["replay"])
    return v.finish()
