"""Keeper properties C09 (lifecycle state machine) and C13 (no deadlock / panic) decided with Keeper.tla /
KeeperImpl.tla: exhaustive TLC check, TLC-generated behaviours (API calls interleaved with plotter steps and plot
outcomes), replay on the real SpaceKeeper with its plotter goroutine under scheduler gates and a scripted plot-DB
backend (harness/cmd/keeperdrv), trace validation against KeeperTrace.tla."""
import json, os
import vlib
from vlib import log


def desc(e):
    a = e.get("a")
    if a == "Act":
        s = "%s(%s)" % (e.get("act"), e.get("w"))
    elif a == "Bulk":
        s = "Bulk%s(%s)" % (e.get("act"), "|".join(e.get("flags", [])))
    elif a == "P":
        s = "P->%s%s" % (e.get("gate", ""), ("(%s,%s)" % (e.get("w"), e.get("m"))) if "w" in e else "")
    elif a == "PlotEnd":
        s = "PlotEnd(%s)" % e.get("out")
    elif a == "Api":
        s = "Api.%s(%s)" % (e.get("call"), e.get("w", ""))
    else:
        s = str(a)
    if "res" in e:
        s += "=" + str(e["res"])
    return s


def nontrivial(steps):
    ts = [s.get("a") for s in steps]
    return "P" in ts and ("Act" in ts or "Bulk" in ts) and "Start" in ts


def mk_scen(behs, seed):
    out = []
    for i, b in enumerate(behs):
        init = b[0]["st"] if b and b[0].get("a") == "Init" else {}
        out.append(dict(sc=i + 1, seed=seed * 100003 + i, steps=b[1:], opt=dict(spaces=3, init=init)))
    return out


def validate(v, prop, d, scen, traces, spec="KeeperTrace.tla", cfg="KeeperTrace.cfg"):
    dead = [t for t in traces if t.get("dead")]
    if dead:
        raise vlib.Machinery("driver could not run %d scenarios: %s" % (len(dead), dead[0].get("note")))
    acc, hw, stats = vlib.tlc_validate(d, spec, cfg, [t["ev"] for t in traces], timeout=1800)
    validate.last_out = stats["out"]
    v.cov["traces_validated_against_impl"] += len(traces)
    v.cov["trace_validation_states"] = v.cov.get("trace_validation_states", 0) + stats["states"]
    for i, tag in stats["flags"]:
        e = vlib.match_known("C09", dict(tag=tag)) or vlib.match_known("C13", dict(tag=tag))
        if e:
            v.known(e, "scenario %d: %s" % (traces[i]["sc"], e.get("what", "")[:140]))
        else:
            v.violation("scenario %d: deviation %s taken but not a listed finding" % (traces[i]["sc"], tag), dict(scenario=scen[i], tag=tag))
    for i, t in enumerate(traces):
        if i in acc:
            continue
        k = hw[i]
        evs = t["ev"]
        e = evs[k] if k < len(evs) else {}
        hung = e.get("res") in ("hang", "panic", "died", "plotter-not-exited") or e.get("gate") == "stuck"
        # C09 owns state-machine divergences, C13 owns calls that do not return / panics; each check reports its own
        mine = hung if prop == "C13" else True
        d_ = ("scenario %d: real keeper diverges from " + ("ApiControl.tla / " if spec.startswith("Api") else "") + "Keeper.tla at step %d %s (st=%s chan=%s queue=%s; after: %s)") % (
            t["sc"], k, desc(e), e.get("st"), e.get("chanlen"), e.get("queuelen"), "; ".join(desc(x) for x in evs[max(1, k - 6):k]))
        cause = dict(cause="hang" if hung else "trace_rejected", action=e.get("act") or e.get("a"))
        if mine:
            v.classify(cause, d_, dict(scenario=scen[i], rejected_step=k, event=e))
        else:
            log("NOTE (belongs to C09, not reported by %s): %s" % (prop, d_))
    return acc


def run(prop, tier, seed):
    v = vlib.Verdict(prop, tier, seed)
    d = vlib.scratch(prop.lower() + "-")
    vlib.prep_specs(d)
    drv = vlib.build("keeperdrv")
    mc = vlib.tlc_mc(d, "KeeperMC.tla", "KeeperMCq.cfg" if tier == "quick" else "KeeperMC.cfg", coverage=(tier == "thorough"), timeout=600)
    vlib.require_mc_ok(mc, "KeeperMC")
    v.cov["states"], v.cov["transitions"], v.cov["mc_depth"] = mc["distinct"], mc["states"], mc["depth"]
    log("MC Keeper: %d distinct states, %d transitions, depth %d, %.1fs" % (mc["distinct"], mc["states"], mc["depth"], mc["wall"]))
    if prop == "C13":
        ml = vlib.tlc_mc(d, "KeeperMC.tla", "KeeperLive.cfg", timeout=900)
        vlib.require_mc_ok(ml, "KeeperMC liveness (weakly fair plotter: popped requests are resolved, plotting ends, the plotter returns to idle)")
        v.cov["liveness_states"] = ml["distinct"]
        mi = vlib.tlc_mc(d, "KeeperImplMC.tla", "KeeperImplMC.cfg", timeout=1200)
        vlib.require_mc_ok(mi, "KeeperImplMC (SendRule = refuse: no wedged state)")
        mw = vlib.tlc_mc(d, "KeeperImplMC.tla", "KeeperImplWedge.cfg", timeout=1200)
        v.cov["impl_states"], v.cov["impl_transitions"] = mi["distinct"], mi["states"]
        v.cov["impl_wedge_reachable_with_blocking_send"] = bool(mw["violated"])
        if not mw["violated"]:
            raise vlib.Machinery("KeeperImpl with SendRule=block no longer shows the sender waiting on the full channel under the state lock")
        # start / stop of the keeper and the life of its plotter goroutine: the repaired join rule holds, the pinned
        # one is refuted (its counterexample is the StartStopStart schedule run on the real keeper below)
        lb = vlib.tlc_mc(d, "KeeperLife.tla", "KeeperLife_before.cfg", timeout=300)
        vlib.require_mc_ok(lb, "KeeperLife (JoinRule = before)")
        li = vlib.tlc_mc(d, "KeeperLife.tla", "KeeperLife_inside.cfg", timeout=300)
        v.cov["life_pinned_join_rule_refuted"] = bool(li["violated"])
        if not li["violated"]:
            raise vlib.Machinery("KeeperLife.tla with JoinRule=inside no longer shows the early return of Stop")
        mp = vlib.tlc_mc(d, "KeeperImplMC.tla", "KeeperImplPopOld.cfg", timeout=1200)
        v.cov["impl_pop_race_reachable_with_unchecked_pop"] = bool(mp["violated"])
        if not mp["violated"]:
            raise vlib.Machinery("KeeperImpl with PopRule=unchecked no longer shows the pop-on-emptied-queue schedule: the model has become vacuous about it")
        log("MC KeeperImpl: %d distinct states, no wedged state with the repaired send rule; the pinned (blocking) rule reaches the wedge: %s" % (mi["distinct"], bool(mw["violated"])))
    n = 500 if tier == "quick" else 5000
    behs = []
    for s2 in range(1 if tier == "quick" else 3):
        b, w = vlib.tlc_generate(d, "KeeperGen.tla", "KeeperGen.cfg", n, 31, seed + 977 * s2)
        behs += b
    behs = vlib.dedup(behs)
    scen = mk_scen(behs, seed)
    log("generated %d distinct behaviours" % len(scen))
    sf, tf = os.path.join(d, "scen.json"), os.path.join(d, "trace.ndjson")
    total = 0
    for lo in range(0, len(scen), 1000):
        part = scen[lo:lo + 1000]
        json.dump(part, open(sf, "w"))
        out, w = vlib.run_driver(drv, sf, tf, ["-workers", str(min(vlib.NCPU, 12)), "-stall", "20"], timeout=600)
        traces = vlib.read_traces(tf)
        log("driver: %d scenarios in %.1fs" % (len(part), w))
        total += len(validate(v, prop, d, part, traces))
        if lo == 0 and traces:
            v.cov["samples"].append([desc(e) for e in traces[0]["ev"]])
    chia(v, prop, d, seed, tier)
    api_stage(v, prop, d, drv, seed, tier)
    real_engine(v, prop, d, drv, seed, tier)
    if prop == "C13":
        stop_stop(v, d, drv, seed, tier)
        stop_at_popped(v, d, drv, seed, tier)
        burst(v, d, drv, seed, tier)
        start_stop_start(v, d, drv, seed)
        concurrent(v, d, drv, seed, tier)
        concurrent(v, d, vlib.build("keeper2drv"), seed, tier, drvname="keeper2drv")
    v.cov["evaluations"] = len(scen) + v.cov.get("evaluations_api", 0) + v.cov.get("evaluations_real_engine", 0)
    v.cov["distinct_nontrivial"] = sum(1 for s in scen if nontrivial(s["steps"]))
    v.cov["traces_accepted"] = total
    v.cov["rule"] = ("behaviours of 30 actions generated by TLC (-simulate, seeded) from KeeperGen.tla over 3 spaces: single and bulk "
                     "plot/mine/stop/remove/delete, keeper start/stop, plotter steps, plot completion/abort; non-trivial = keeper started, "
                     "at least one API call and one plotter step; plus behaviours of ApiGen.tla: the gRPC handlers Plot/Mine/StopCapacitySpace(s) of api.Server "
                     "over the same keeper (also for unknown ids and removed spaces), validated against ApiTrace.tla")
    v.assumptions = ["plot-DB backend scripted (massdb.DBBackendList entry replaced): a plot ends when and how the scenario says",
                     "plotter goroutine runs under verif-tagged scheduler gates; API calls are issued one at a time between gates",
                     "the window between the plotter's step 1 and the start of Plot() and a keeper stop while an item is popped but not started are not explored"]
    return v.finish()


def api_stage(v, prop, d, drv, seed, tier):
    """the same state machine driven through the gRPC handlers (api/spaces.v1.go): ApiControl.tla is checked by TLC,
    its behaviours are replayed on api.Server over the real keeper and validated against ApiTrace.tla"""
    import re
    if prop == "C09":
        ma = vlib.tlc_mc(d, "ApiControlMC.tla", "ApiControlq.cfg" if tier == "quick" else "ApiControl.cfg", timeout=1500)
        vlib.require_mc_ok(ma, "ApiControl (the keeper's invariants and action properties when driven through the handlers)")
        v.cov["api_states"] = ma["distinct"]
        mo = vlib.tlc_mc(d, "ApiControlMC.tla", "ApiControlObs.cfg", timeout=600)
        v.cov["api_observation_mining_without_miner_reachable"] = bool(mo["violated"])
        mo2 = vlib.tlc_mc(d, "ApiControlMC.tla", "ApiControlObs2.cfg", timeout=600)
        v.cov["api_observation_miner_started_on_locked_wallet_reachable"] = bool(mo2["violated"])
        log("MC ApiControl: %d distinct states; observation (a space reaches mining while the miner is stopped) reachable: %s" % (ma["distinct"], bool(mo["violated"])))
    n = 300 if tier == "quick" else 3000
    behs, w = vlib.tlc_generate(d, "ApiGen.tla", "ApiGen.cfg", n, 31, seed + 31337)
    scen = []
    for i, b in enumerate(vlib.dedup(behs)):
        init = b[0]["st"] if b and b[0].get("a") == "Init" else {}
        scen.append(dict(sc=60000 + i, seed=seed * 100003 + 60000 + i, steps=b[1:], opt=dict(spaces=3, init=init, api=True)))
        if i % 12 == 5:
            # the real sync miner instead of the scripted one (it idles: no peers; its Stop takes up to a slot)
            scen[-1]["opt"]["realminer"] = True
    sf, tf = os.path.join(d, "api.json"), os.path.join(d, "api.ndjson")
    json.dump(scen, open(sf, "w"))
    out, w = vlib.run_driver(drv, sf, tf, ["-workers", str(min(vlib.NCPU, 12)), "-stall", "20"], timeout=900)
    traces = vlib.read_traces(tf)
    acc = validate(v, prop, d, scen, traces, spec="ApiTrace.tla", cfg="ApiTrace.cfg")
    notes = []
    m = re.search(r'<<\s*"NOTES",\s*"((?:[^"\\]|\\.)*)"\s*>>', validate.last_out)
    if m:
        notes = json.loads(vlib._unescape_tla(m.group(1)))
    for x in notes[:5]:
        log("NOTE (outside the listed properties): scenario %s: %s" % (traces[int(x[0]) - 1]["sc"], x[1]))
    v.cov["api_scenarios"], v.cov["api_accepted"], v.cov["api_miner_notes"] = len(scen), len(acc), len(notes)
    v.cov["api_scenarios_with_the_real_miner"] = sum(1 for s_ in scen if s_["opt"].get("realminer"))
    v.cov["evaluations_api"] = len(scen)
    log("api handlers: %d scenarios in %.1fs, %d accepted, %d miner notes" % (len(scen), w, len(acc), len(notes)))
    if traces:
        v.cov["samples"].append([desc(e) for e in traces[0]["ev"]][:16])


def burst(v, d, drv, seed, tier):
    """C13: more outstanding requests than the request channel holds: every one must return (accepted or refused), the
    keeper must go on answering and must stop (F-C13a, repaired: a full channel refuses; KeeperImpl.tla SendRule)."""
    sc = [dict(sc=9001, seed=seed, steps=[dict(a="Burst", n=1030)], opt=dict(spaces=3, init={}))]
    sf, tf = os.path.join(d, "burst.json"), os.path.join(d, "burst.ndjson")
    json.dump(sc, open(sf, "w"))
    vlib.run_driver(drv, sf, tf, ["-workers", "1"], timeout=600)
    t = vlib.read_traces(tf)[0]
    ev = [e for e in t["ev"] if e.get("a") == "Burst"]
    if not ev:
        raise vlib.Machinery("burst scenario did not run: %s" % t.get("note"))
    e = ev[0]
    v.cov["burst"] = {k: e.get(k) for k in ("n", "returned", "refused", "chancap", "after_plot_queries", "after_plot_stop")}
    if e.get("after_plot_queries") == "hang" or e.get("after_plot_stop") == "hang" or e.get("returned", 0) < e.get("n", 0):
        desc_ = ("with %s Plot requests outstanding during a plot (channel capacity %s) only %s returned; after the plot ended "
                 "queries: %s, keeper Stop: %s" % (e.get("n"), e.get("chancap"), e.get("returned"), e.get("after_plot_queries"), e.get("after_plot_stop")))
        v.classify(dict(cause="request_channel_full_under_state_lock", tag="C13-request-channel-full"), desc_, dict(scenario=sc[0], event=e))


def chia(v, prop, d, seed, tier):
    """the chia keeper (poc/engine.v2/spacekeeper/skchia) against the same specification: every space starts ready"""
    drv2 = vlib.build("keeper2drv")
    n = 150 if tier == "quick" else 2000
    behs, w = vlib.tlc_generate(d, "KeeperGen.tla", "Keeper2Gen.cfg", n, 25, seed + 4242)
    scen = [dict(sc=40000 + i, seed=seed * 100003 + i, steps=b[1:], opt=dict(spaces=3, keeper="chia")) for i, b in enumerate(vlib.dedup(behs))]
    sf, tf = os.path.join(d, "chia.json"), os.path.join(d, "chia.ndjson")
    json.dump(scen, open(sf, "w"))
    out, w = vlib.run_driver(drv2, sf, tf, ["-workers", str(min(vlib.NCPU, 12)), "-stall", "30"], timeout=900)
    traces = vlib.read_traces(tf)
    log("chia keeper: %d scenarios in %.1fs" % (len(scen), w))
    acc = validate(v, prop, d, scen, traces)
    v.cov["chia_keeper_scenarios"] = len(scen)
    v.cov["chia_keeper_traces_accepted"] = len(acc)


def start_stop_start(v, d, drv, seed):
    """C13 / C09: Stop issued before the freshly spawned plotter goroutine has run (held at its entry by a gate), then
    Start again: Stop must wait for that goroutine, and there must never be two plotters."""
    sc = [dict(sc=9100, seed=seed, steps=[], opt=dict(mode="startstopstart", spaces=3, init={}))]
    sf, tf = os.path.join(d, "sss.json"), os.path.join(d, "sss.ndjson")
    json.dump(sc, open(sf, "w"))
    vlib.run_driver(drv, sf, tf, ["-workers", "1", "-stall", "60"], timeout=300)
    t = vlib.read_traces(tf)[0]
    ev = [e for e in t["ev"] if e.get("a") == "StartStopStart"]
    if not ev or t.get("dead"):
        raise vlib.Machinery("StartStopStart schedule did not run: %s" % t.get("note"))
    e = ev[0]
    v.cov["start_stop_start"] = {k: e.get(k) for k in ("stop_returned_before_plotter_ran", "max_plotters_alive", "plotters_after_stop", "stop", "final_stop")}
    if e.get("stop_returned_before_plotter_ran") or e.get("max_plotters_alive", 0) > 1 or e.get("plotters_after_stop", 0) != 0 or e.get("final_stop") != "ok" or e.get("stop", "ok") != "ok":
        v.classify(dict(cause="start_stop_start", tag="C13-stop-before-plotter-scheduled"),
                   "Start; Stop before the plotter goroutine ran; Start: Stop returned early=%s, plotters alive at once=%s, left after the final Stop=%s (stop=%s, final stop=%s)" % (
                       e.get("stop_returned_before_plotter_ran"), e.get("max_plotters_alive"), e.get("plotters_after_stop"), e.get("stop"), e.get("final_stop")),
                   dict(scenario=sc[0], event=e))


def real_engine(v, prop, d, drv, seed, tier):
    """the same behaviours with the real plot engine behind the keeper (massdb.v1, a 10-bit table behind the configured
    name; its first window is held by the memory hook until the behaviour lets the plot go on): real Plot / StopPlot /
    Progress / Delete under the keeper's locks, files on disk as the files projection"""
    n = 200 if tier == "quick" else 3000
    behs, w = vlib.tlc_generate(d, "KeeperGen.tla", "KeeperGen.cfg", n, 31, seed + 5151)
    scen = mk_scen(vlib.dedup(behs), seed)
    for i, s_ in enumerate(scen):
        s_["sc"] = 70000 + i
        s_["opt"]["realdb"] = True
    sf, tf = os.path.join(d, "real.json"), os.path.join(d, "real.ndjson")
    json.dump(scen, open(sf, "w"))
    out, w = vlib.run_driver(drv, sf, tf, ["-workers", str(min(vlib.NCPU, 12)), "-stall", "30"], timeout=1500)
    traces = vlib.read_traces(tf)
    acc = validate(v, prop, d, scen, traces)
    plots = sum(1 for t in traces for e in t["ev"] if e.get("gate") == "inplot")
    v.cov["real_engine_scenarios"], v.cov["real_engine_accepted"], v.cov["real_engine_plots_started"] = len(scen), len(acc), plots
    v.cov["evaluations_real_engine"] = len(scen)
    log("real plot engine behind the keeper: %d scenarios in %.1fs, %d accepted, %d real plots started" % (len(scen), w, len(acc), plots))


def stop_stop(v, d, drv, seed, tier="quick"):
    """C13: StopWS of the space being plotted (real engine) and a stop of the keeper arrive together: the keeper asks
    the engine to stop the plot on both paths.  PlotStop.tla: with the repaired close rule nothing panics and every
    StopPlot returns; with the pinned rule TLC finds the double close, which is this schedule."""
    mf = vlib.tlc_mc(d, "PlotStop.tla", "PlotStop_first.cfg", timeout=300)
    vlib.require_mc_ok(mf, "PlotStop (CloseRule = first)")
    ma = vlib.tlc_mc(d, "PlotStop.tla", "PlotStop_always.cfg", timeout=300)
    v.cov["plotstop_pinned_close_rule_refuted"] = bool(ma["violated"])
    if not ma["violated"]:
        raise vlib.Machinery("PlotStop.tla with CloseRule=always no longer shows the double close")
    mg = vlib.tlc_mc(d, "PlotStop.tla", "PlotStop_flagfirst.cfg", timeout=300)
    v.cov["plotstop_pinned_start_rule_refuted"] = bool(mg["violated"])
    if not mg["violated"]:
        raise vlib.Machinery("PlotStop.tla with StartRule=flagfirst no longer shows the close of a channel that does not exist yet")
    if tier == "thorough":
        # unbounded in the number of callers: the TLA+ proof system discharges NoPanic for the repaired rule
        import subprocess, shutil
        pd = os.path.join(d, "tlaps")
        os.makedirs(pd, exist_ok=True)
        for f in ("PlotStop.tla", "PlotStopProof.tla"):
            shutil.copy(os.path.join(d, f), pd)
        try:
            r = subprocess.run(["tlapm", "--threads", str(min(vlib.NCPU, 8)), "PlotStopProof.tla"], cwd=pd, stdout=subprocess.PIPE, stderr=subprocess.STDOUT, timeout=600)
            out = r.stdout.decode("utf-8", "replace")
        except Exception as ex:
            raise vlib.Machinery("tlapm could not be run on PlotStopProof.tla: %s" % ex)
        import re
        m = re.search(r"All (\d+) obligations proved", out)
        if not m:
            raise vlib.Machinery("tlapm did not prove PlotStopProof.tla:\n" + out[-1500:])
        v.cov["plotstop_tlaps_obligations_proved"] = int(m.group(1))
        log("TLAPS: PlotStopProof.tla - %s obligations proved (NoPanic for any number of callers)" % m.group(1))
    sc = [dict(sc=9200 + i, seed=seed * 31 + i, steps=[], opt=dict(mode="stopstop", realdb=True, spaces=3, init={})) for i in range(3)]
    sf, tf = os.path.join(d, "ss.json"), os.path.join(d, "ss.ndjson")
    json.dump(sc, open(sf, "w"))
    vlib.run_driver(drv, sf, tf, ["-workers", "3", "-stall", "60"], timeout=300)
    res = []
    for s_, t in zip(sc, vlib.read_traces(tf)):
        ev = [e for e in t["ev"] if e.get("a") in ("StopStop", "?")]
        if t.get("dead") or not ev:
            raise vlib.Machinery("StopStop schedule did not run: %s" % t.get("note"))
        e = ev[-1]
        res.append({k: e.get(k) for k in ("res", "stop_space", "stop_keeper", "stops_at_engine")})
        if e.get("res") in ("no-plot",) or str(e.get("res", "")).startswith("plot-"):
            raise vlib.Machinery("StopStop schedule could not bring a plot under way: %s" % e.get("res"))
        if e.get("res") != "ok" or e.get("stop_space") != "ok" or e.get("stop_keeper") != "ok":
            note = str(t.get("note") or "")
            what = "panic: close of closed channel in MassDBV1.StopPlot" if "close of closed channel" in note else "res=%s" % e.get("res")
            v.classify(dict(cause="stop_stop", tag="C13-concurrent-stops-of-a-running-plot"),
                       "StopWS of the plotting space together with a keeper stop (real plot engine): %s; workspace stop=%s, keeper stop=%s" % (
                           what, e.get("stop_space"), e.get("stop_keeper")), dict(scenario=s_, event=e, output=note[-1500:]))
    v.cov["stop_stop"] = res


def stop_at_popped(v, d, drv, seed, tier):
    """informational (C13 asks that stopping the keeper terminates; it does, but when): the keeper is stopped after the
    plotter has popped a request and before the plot has begun.  The plotter's monitor asks the engine to stop a plot
    that may not have started yet; if it has not, nothing stops the plot that starts right afterwards and Stop waits
    for its end.  Counted on the real engine, reported as a note."""
    n = 40 if tier == "quick" else 400
    sc = [dict(sc=9300 + i, seed=seed * 131 + i, steps=[], opt=dict(mode="stopatpopped", realdb=True, spaces=3, init={})) for i in range(n)]
    sf, tf = os.path.join(d, "sp.json"), os.path.join(d, "sp.ndjson")
    json.dump(sc, open(sf, "w"))
    vlib.run_driver(drv, sf, tf, ["-workers", "8", "-stall", "60"], timeout=600)
    ran, hung, tot = 0, 0, 0
    for t in vlib.read_traces(tf):
        for e in t["ev"]:
            if e.get("a") == "StopAtPopped" and e.get("res") == "ok":
                tot += 1
                ran += 1 if e.get("plotted_to_the_end") else 0
                hung += 1 if e.get("stop") != "ok" else 0
    v.cov["stop_at_popped"] = dict(runs=tot, plot_ran_to_its_end_despite_stop=ran, stop_did_not_return=hung)
    if ran:
        log("NOTE keeper stop between pop and plot start: in %d of %d runs the plot was run to its end and Stop waited for it" % (ran, tot))
    if hung:
        v.classify(dict(cause="stop_at_popped", tag="C13-stop-at-popped-hangs"), "keeper stop issued between the plotter's pop and the start of the plot did not return in %d of %d runs" % (hung, tot), dict(scenario=sc[0]))


def concurrent(v, d, drv, seed, tier, only=None, drvname="keeperdrv"):
    """C13: concurrent callers on the real keeper while the plotter runs freely; also on a race-detector build."""
    if only is None:
        n = 60 if tier == "quick" else 600
        behs, w = vlib.tlc_generate(d, "KeeperConcGen.tla", "KeeperConcGen.cfg", n, 2, seed + 5)
        sc = [dict(sc=20000 + i, seed=seed * 7919 + i, steps=[], opt=dict(mode="conc", spaces=6, init={}, threads=b[0]["threads"])) for i, b in enumerate(behs)]
        if drvname == "keeperdrv":
            for s_ in sc[1::2]:
                s_["opt"]["realdb"] = True      # every second history with the real plot engine behind the keeper
    else:
        sc = [only]
    sf, tf = os.path.join(d, "conc.json"), os.path.join(d, "conc.ndjson")
    json.dump(sc, open(sf, "w"))
    race = vlib.build(drvname, race=True)
    sites = set()
    for binpath, label in ((drv, "plain"), (race, "race")):
        for f in (tf, tf + ".races"):
            if os.path.exists(f):
                os.remove(f)
        out, w = vlib.run_driver(binpath, sf, tf, ["-workers", str(min(vlib.NCPU, 8)), "-stall", "60"], timeout=1500)
        traces = vlib.read_traces(tf)
        log("concurrent callers on %s (%s build): %d histories in %.1fs" % (drvname, label, len(sc), w))
        for s_, t in zip(sc, traces):
            if t.get("dead"):
                raise vlib.Machinery("concurrent history did not run: %s" % t.get("note"))
            e = ([x for x in t["ev"] if x.get("a") == "Conc" or x.get("res") == "died"] or [{}])[-1]
            if e.get("res") != "ok":
                v.classify(dict(cause="concurrent_callers", res=str(e.get("res"))),
                           "history %d (%s, %s build): with %d concurrent callers the keeper %s: %s" % (
                               t["sc"], drvname, label, len(s_["opt"]["threads"]), {"hang": "did not return", "panic": "panicked", "died": "killed the process"}.get(e.get("res"), str(e.get("res"))),
                               "; ".join(e.get("bad", []))[:600] or (t.get("note") or "")[-600:]),
                           dict(scenario=dict(s_, opt=dict(s_["opt"], keeper=("chia" if drvname == "keeper2drv" else "capacity"))), event=e))
        if os.path.exists(tf + ".races"):
            import walletconc
            sites |= set(walletconc.race_sites(open(tf + ".races").read(), "spacekeeper"))
    v.cov["concurrent_histories_" + drvname] = len(sc)
    v.cov["race_sites_" + drvname] = [list(x) for x in sorted(sites)]
    for st in sorted(sites):
        log("NOTE race detector (keeper): %s" % (st,))
    v.cov["evaluations_concurrent"] = len(sc) * 2


def replay(prop, path, seed):
    v = vlib.Verdict(prop, "quick", seed)
    d = vlib.scratch(prop.lower() + "r-")
    vlib.prep_specs(d)
    drv = vlib.build("keeperdrv")
    r = json.load(open(path))["replay"]
    if r["scenario"].get("opt", {}).get("mode") == "startstopstart":
        start_stop_start(v, d, drv, seed)
        v.cov.update(states=1, transitions=1, evaluations=1, distinct_nontrivial=1)
        return v.finish()
    if r["scenario"].get("opt", {}).get("mode") == "stopstop":
        stop_stop(v, d, drv, seed)
        v.cov.update(states=1, transitions=1, evaluations=1, distinct_nontrivial=1)
        return v.finish()
    if r["scenario"].get("opt", {}).get("mode") == "conc":
        concurrent(v, d, drv, seed, "quick", only=r["scenario"])
        v.cov.update(states=1, transitions=1, evaluations=1, distinct_nontrivial=1)
        return v.finish()
    scen = [r["scenario"]]
    sf, tf = os.path.join(d, "scen.json"), os.path.join(d, "trace.ndjson")
    json.dump(scen, open(sf, "w"))
    vlib.run_driver(drv, sf, tf)
    traces = vlib.read_traces(tf)
    if r["scenario"].get("opt", {}).get("api"):
        validate(v, prop, d, scen, traces, spec="ApiTrace.tla", cfg="ApiTrace.cfg")
    else:
        validate(v, prop, d, scen, traces)
    v.cov.update(states=1, transitions=1, evaluations=1, distinct_nontrivial=1)
    v.cov["samples"].append([desc(e) for e in traces[0]["ev"]])
    return v.finish()
