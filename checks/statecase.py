"""Properties decided by a case-analysis specification whose complete state graph is the test set:
C16 (Codec.tla).  TLC enumerates every abstract case; the driver concretises each (seeded, several
representatives) and runs the real code; TLC validates the recorded outcomes against the specification."""
import json, os
import vlib
from vlib import log

CASES = {
    "C16": dict(spec="CodecMC.tla", cfg="CodecMC.cfg", trace="CodecTrace.tla", tcfg="CodecTrace.cfg", drv="codecdrv", key="frame",
                reps_quick=2, reps_thorough=40),
    "C18": dict(spec="HDKeyMC.tla", cfg="HDKeyMC.cfg", trace="HDKeyTrace.tla", tcfg="HDKeyTrace.cfg", drv="hdkeydrv", key="frame",
                reps_quick=1, reps_thorough=12),
    "C20": dict(spec="GatewayMC.tla", cfg="GatewayMC.cfg", trace="GatewayTrace.tla", tcfg="GatewayTrace.cfg", drv="gatewaydrv", key="frame",
                reps_quick=3, reps_thorough=60),
}


def short(fr):
    if "kind" in fr:
        return json.dumps(fr, sort_keys=True)
    if isinstance(fr.get("body"), dict) and fr.get("raw") == "object":
        dev = {k: v for k, v in fr["body"].items() if v != "valid"}
        return "%s%s" % (fr["type"], json.dumps(dev, sort_keys=True))
    return "%s/%s/%s" % (fr.get("prefix"), fr.get("type"), fr.get("raw"))


def run(prop, tier, seed):
    C = CASES[prop]
    v = vlib.Verdict(prop, tier, seed)
    d = vlib.scratch(prop.lower() + "-")
    vlib.prep_specs(d)
    drv = vlib.build(C["drv"])
    cases, w = vlib.tlc_enumerate(d, C["spec"], C["cfg"], timeout=900)
    mc = vlib.tlc_mc(d, C["spec"].replace("MC", "MC"), C["cfg"], timeout=900, workers=1) if False else None
    frames = [b[0] for b in cases]
    v.cov["states"], v.cov["transitions"] = len(frames) + 1, len(frames)
    v.cov["exhaustive"] = True
    log("TLC enumerated %d abstract cases (%.1fs)" % (len(frames), w))
    reps = C["reps_quick"] if tier == "quick" else C["reps_thorough"]
    nsc = 12
    scen = [dict(sc=i + 1, seed=seed * 7919 + i, steps=[dict(a="Decode", frame=f[C["key"]]) for f in frames[i::nsc]], opt=dict(reps=reps)) for i in range(nsc)]
    sf, tf = os.path.join(d, "scen.json"), os.path.join(d, "trace.ndjson")
    json.dump(scen, open(sf, "w"))
    out, w = vlib.run_driver(drv, sf, tf, ["-workers", str(nsc), "-stall", "60"], timeout=1500)
    traces = vlib.read_traces(tf)
    dead = [t for t in traces if t.get("dead")]
    if dead:
        raise vlib.Machinery("driver could not run %d scenarios: %s" % (len(dead), dead[0].get("note")))
    nev = sum(len(t["ev"]) for t in traces)
    log("driver: %d decodes in %.1fs" % (nev, w))
    # validate; a rejected event ends its scenario's trace, so re-validate the remainder until everything is judged
    pending = [(t["sc"], t["ev"]) for t in traces]
    rounds = 0
    while pending and rounds < 40:
        rounds += 1
        acc, hw, stats = vlib.tlc_validate(d, C["trace"], C["tcfg"], [ev for _, ev in pending], timeout=1500)
        v.cov["trace_validation_states"] = v.cov.get("trace_validation_states", 0) + stats["states"]
        for i, tag in stats["flags"]:
            ent = vlib.match_known(prop, dict(tag=tag))
            if ent:
                v.known(ent, ent.get("what", "")[:200])
            else:
                v.violation("deviation %s taken but not a listed finding" % tag, dict(tag=tag))
        nxt = []
        for i, (sc, ev) in enumerate(pending):
            if i in acc:
                continue
            k = hw[i]
            e = ev[k] if k < len(ev) else {}
            obs = {k_: e[k_] for k_ in e if k_ not in ("frame", "a")}
            desc = "case %s: the real code does not do what the specification fixes for it: observed %s" % (short(e.get("frame", {})), json.dumps(obs, sort_keys=True)[:300])
            v.classify(dict(cause="outcome", res=e.get("res"), frame=short(e.get("frame", {}))), desc, dict(scenario=dict(sc=sc, seed=seed, steps=[dict(a="Decode", frame=e.get("frame"))], opt=dict(reps=3)), event=e))
            if k + 1 < len(ev):
                nxt.append((sc, ev[k + 1:]))
        pending = nxt
    v.cov["traces_validated_against_impl"] = len(traces)
    if prop == "C16":
        nev += framing(v, d, drv, seed, tier)
    v.cov["evaluations"] = nev
    v.cov["distinct_nontrivial"] = len(frames)
    v.cov["rule"] = "every abstract case of %s (complete enumeration by TLC), %d seeded concrete representatives each; all are distinct cases" % (C["spec"], reps)
    v.cov["samples"] = [dict(case=short(e["frame"]), observed={k_: e[k_] for k_ in e if k_ not in ("frame", "a")}) for e in traces[0]["ev"][:6]]
    v.assumptions = ["the case analysis (classes per field kind, at most two deviating fields per object, one per nested object) is the unit of exhaustiveness; "
                     "within a class bytes are sampled", "BLS group elements come from mass-core chiapos (cgo)"]
    return v.finish()


def framing(v, d, drv, seed, tier, only=None):
    """C16, second half: bytes on the socket (Framing.tla) - every case of length prefix / payload / continuation on a
    real connection.Conn: what reaches the reader, whether the connection survives, and bounded allocation."""
    if only is None:
        cases, w = vlib.tlc_enumerate(d, "FramingMC.tla", "FramingMC.cfg", timeout=300)
        frames = [b[0]["frame"] for b in cases]
        reps = 2 if tier == "quick" else 12
        scen = [dict(sc=60000 + i, seed=seed * 7919 + 77 + i, steps=[dict(a="Frame", frame=f) for f in frames[i::4]], opt=dict(reps=reps)) for i in range(4)]
    else:
        frames, scen = [], [only]
    sf, tf = os.path.join(d, "framing.json"), os.path.join(d, "framing.ndjson")
    json.dump(scen, open(sf, "w"))
    vlib.run_driver(drv, sf, tf, ["-workers", "4", "-stall", "120"], timeout=1500)
    traces = vlib.read_traces(tf)
    dead = [t for t in traces if t.get("dead")]
    if dead:
        raise vlib.Machinery("driver could not run %d framing scenarios: %s" % (len(dead), dead[0].get("note")))
    pending = [(t["sc"], t["ev"]) for t in traces]
    n = sum(len(ev) for _, ev in pending)
    rounds = 0
    while pending and rounds < 40:
        rounds += 1
        acc, hw, stats = vlib.tlc_validate(d, "FramingTrace.tla", "FramingTrace.cfg", [ev for _, ev in pending], timeout=600)
        nxt = []
        for i, (sc, ev) in enumerate(pending):
            if i in acc:
                continue
            k = hw[i]
            e = ev[k] if k < len(ev) else {}
            obs = {k_: e[k_] for k_ in e if k_ not in ("frame", "a")}
            v.classify(dict(cause="framing", frame=json.dumps(e.get("frame"), sort_keys=True)),
                       "framing case %s: the connection did not do what Framing.tla fixes: observed %s" % (json.dumps(e.get("frame"), sort_keys=True), json.dumps(obs, sort_keys=True)[:300]),
                       dict(scenario=dict(sc=sc, seed=seed, steps=[dict(a="Frame", frame=e.get("frame"))], opt=dict(reps=3)), event=e))
            if k + 1 < len(ev):
                nxt.append((sc, ev[k + 1:]))
        pending = nxt
    log("framing: %d cases, %d runs on a real connection" % (len(frames), n))
    v.cov["framing_cases"], v.cov["framing_runs"] = len(frames), n
    return n


def replay(prop, path, seed):
    C = CASES[prop]
    r0 = json.load(open(path))["replay"]
    if r0["scenario"]["steps"] and r0["scenario"]["steps"][0].get("a") == "Frame":
        v = vlib.Verdict(prop, "quick", seed)
        d = vlib.scratch(prop.lower() + "r-")
        vlib.prep_specs(d)
        framing(v, d, vlib.build(C["drv"]), seed, "quick", only=r0["scenario"])
        v.cov.update(states=1, transitions=1, evaluations=1, distinct_nontrivial=1, samples=["replay"])
        return v.finish()
    v = vlib.Verdict(prop, "quick", seed)
    d = vlib.scratch(prop.lower() + "r-")
    vlib.prep_specs(d)
    drv = vlib.build(C["drv"])
    r = json.load(open(path))["replay"]
    scen = [r["scenario"]]
    sf, tf = os.path.join(d, "scen.json"), os.path.join(d, "trace.ndjson")
    json.dump(scen, open(sf, "w"))
    vlib.run_driver(drv, sf, tf, ["-workers", "1"])
    traces = vlib.read_traces(tf)
    acc, hw, stats = vlib.tlc_validate(d, C["trace"], C["tcfg"], [t["ev"] for t in traces])
    for i, t in enumerate(traces):
        if i not in acc:
            e = t["ev"][hw[i]]
            v.classify(dict(cause="outcome", res=e.get("res")), "frame %s: %s" % (short(e.get("frame", {})), e.get("res")), dict(scenario=scen[0], event=e))
    v.cov.update(states=1, transitions=1, evaluations=1, distinct_nontrivial=1, samples=[short(traces[0]["ev"][0].get("frame", {}))])
    return v.finish()
