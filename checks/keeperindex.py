"""C11: plot files are deleted only on request and loaded only if they match.
Start-up half: KeeperIndex.tla (what must be indexed from a directory content) - TLC checks the contract's sanity on
every content of one or two files, TLC generates contents, the driver materialises real plot files (real headers,
corruptions, renames, legacy names, duplicates, a genuine proof in plotted files), starts the real keeper and records
what was indexed / served / lost; validated against KeeperIndexTrace.tla.
Request half: Keeper.tla (OnlyDeleteDeletes, refusal while busy) model-checked, and request sequences with Remove /
Delete on real plot files validated against CapacityTrace.tla (index = files after every request)."""
import json, os
import vlib
from vlib import log
import capacity as cap


def fdesc(f):
    return "%s%s/bl%d/%s%s%s%s" % (f["key"], "" if f["ordOK"] else "(wrong ordinal)", f["bl"], f["hdr"], "/legacy" if f["legacy"] else "",
                                  {"plotted": "/plotted", "preplotted": "/A-complete"}.get(f.get("prog"), ""), "" if f["hasA"] else "/noA") + "@" + f["d"]


def stops_erase_nothing(v, d, seed, tier):
    """C11, 'deleted only on request': real plots interrupted by graceful stops at generated windows (PlotGen) - after
    every stop both tables of the unfinished plot must still be there.  Only file disappearance is judged here; the
    rest of what the plot engine observes belongs to C10 / C07."""
    drv = vlib.build("plotdrv")
    behs, w = vlib.tlc_generate(d, "PlotGen.tla", "PlotGen.cfg", 60 if tier == "quick" else 600, 2, seed + 17)
    scen = []
    for i, b in enumerate(vlib.dedup(behs)):
        st = dict(b[0], crash=False)
        if st.get("stops"):
            scen.append(dict(sc=30000 + i, seed=seed * 100003 + i, steps=[st]))
    if not scen:
        return 0
    sf, tf = os.path.join(d, "stops.json"), os.path.join(d, "stops.ndjson")
    json.dump(scen, open(sf, "w"))
    vlib.run_driver(drv, sf, tf, ["-workers", str(min(vlib.NCPU, 12)), "-stall", "120"], timeout=1200)
    for s_, t in zip(scen, vlib.read_traces(tf)):
        if t.get("dead"):
            raise vlib.Machinery("stop schedule did not run: %s" % t.get("note"))
        e = t["ev"][0] if t["ev"] else {}
        lost = e.get("fileslost") or []
        gone = "no such file" in str(e.get("err", ""))
        if e.get("res") == "plotted" and (e.get("complete") is False or e.get("equal") is False) and not e.get("aLeft"):
            lost = lost + ["table A was erased although table B is not the complete table (%s)" % e.get("note")]
        if e.get("res") == "unreadable":
            lost = lost + ["the space was marked plotted and table A erased, but table B cannot be read back (%s)" % e.get("err")]
        if lost or gone:
            st = s_["steps"][0]
            v.classify(dict(cause="table_erased_by_stop"),
                       "plot of bit length %s stopped at windows %s: %s" % (st.get("bl"), st.get("stops"), "; ".join(lost) or e.get("err")),
                       dict(scenario=s_, event={k: e.get(k) for k in ("res", "err", "fileslost", "resumptions")}))
    log("stop schedules on the real plotter: %d (no table may disappear)" % len(scen))
    return len(scen)


def run(prop, tier, seed):
    v = vlib.Verdict(prop, tier, seed)
    d = vlib.scratch("c11-")
    vlib.prep_specs(d)
    drv = vlib.build("capdrv")
    mc = vlib.tlc_mc(d, "KeeperIndex.tla", "KeeperIndexMC.cfg", timeout=900)
    vlib.require_mc_ok(mc, "KeeperIndex")
    mk = vlib.tlc_mc(d, "KeeperMC.tla", "KeeperMCq.cfg", timeout=900)
    vlib.require_mc_ok(mk, "KeeperMC (OnlyDeleteDeletes, refusal while busy)")
    v.cov["states"], v.cov["transitions"] = mc["distinct"] + mk["distinct"], mc["states"] + mk["states"]
    log("MC KeeperIndex: %d contents; MC Keeper: %d states" % (mc["distinct"], mk["distinct"]))
    n = 200 if tier == "quick" else 4000
    behs = []
    for glen in (1, 2, 4):
        cfg = open(os.path.join(d, "KeeperIndexGen.cfg")).read().replace("GenLen = 4", "GenLen = %d" % glen)
        open(os.path.join(d, "KeeperIndexGen%d.cfg" % glen), "w").write(cfg)
        b, w = vlib.tlc_generate(d, "KeeperIndexMC.tla", "KeeperIndexGen%d.cfg" % glen, n if glen > 1 else 80, glen, seed + glen)
        behs += b
    behs = vlib.dedup(behs)
    scen = [dict(sc=i + 1, seed=seed * 100003 + i, steps=b, opt=dict(kind="index")) for i, b in enumerate(behs)]
    log("generated %d directory contents" % len(scen))
    sf, tf = os.path.join(d, "scen.json"), os.path.join(d, "trace.ndjson")
    json.dump(scen, open(sf, "w"))
    out, w = vlib.run_driver(drv, sf, tf, ["-workers", str(min(vlib.NCPU, 12)), "-stall", "90"], timeout=1500)
    traces = vlib.read_traces(tf)
    dead = [t for t in traces if t.get("dead")]
    if dead:
        raise vlib.Machinery("driver could not run %d scenarios: %s" % (len(dead), dead[0].get("note")))
    log("driver: %d start-ups in %.1fs" % (len(traces), w))
    acc, hw, stats = vlib.tlc_validate(d, "KeeperIndexTrace.tla", "KeeperIndexTrace.cfg", [t["ev"] for t in traces], timeout=1500)
    v.cov["traces_validated_against_impl"] += len(traces)
    for i, t in enumerate(traces):
        if i in acc:
            continue
        e = t["ev"][0] if t["ev"] else {}
        d_ = "scenario %d: directory {%s}: keeper indexed %s, served %s, lost %s, altered %s, res %s; after deleting every indexed space: left behind %s, other files touched %s, refused %s" % (
            t["sc"], "; ".join(fdesc(f) for f in e.get("files", [])), [(x["key"], x["bl"], x["state"]) for x in e.get("indexed", [])],
            e.get("served"), e.get("lost"), e.get("altered"), e.get("res"), e.get("undeleted"), e.get("collateral"), e.get("refused"))
        after_delete = bool(e.get("undeleted") or e.get("collateral") or e.get("refused"))
        v.classify(dict(cause="delete_leaves_files" if (e.get("undeleted") and not e.get("collateral") and not e.get("refused")) else "index_rejected"), d_, dict(scenario=scen[i], event={k: e[k] for k in e if k != "files"}))
    if traces:
        e = traces[0]["ev"][0]
        v.cov["samples"].append(dict(directory=[fdesc(f) for f in e.get("files", [])], indexed=e.get("indexed"), served=e.get("served")))
    # request half on real files
    b2, w = vlib.tlc_generate(d, "CapacityGen.tla", "CapacityGen.cfg", 80 if tier == "quick" else 1500, 10, seed + 99)
    sc2 = [dict(sc=10000 + i, seed=seed * 100003 + 7 * i, steps=b) for i, b in enumerate(vlib.dedup(b2))]
    json.dump(sc2, open(sf, "w"))
    vlib.run_driver(drv, sf, tf, ["-workers", str(min(vlib.NCPU, 12)), "-stall", "60"], timeout=1200)
    tr2 = vlib.read_traces(tf)
    v2 = vlib.Verdict(prop, tier, seed)
    cap.validate(v2, d, sc2, tr2)
    for path, desc in v2.violations:
        ev_ = json.load(open(path))["replay"].get("event", {})
        if ev_.get("a") in ("Remove", "Delete", "Restart"):
            v.violations.append((path, desc))
        else:
            log("NOTE (belongs to C15): " + desc[:200])
    v.cov["traces_validated_against_impl"] += len(tr2)
    nstop = stops_erase_nothing(v, d, seed, tier)
    v.cov["evaluations"] = len(scen) + len(sc2) + nstop
    v.cov["distinct_nontrivial"] = sum(1 for s in scen if any(f["hdr"] != "ok" or f["key"] == "kf" or f["legacy"] or not f["hasA"] for f in s["steps"]))
    v.cov["rule"] = ("directory contents of 1, 2 and 4 abstract plot files generated by TLC (good, wrong header kinds, foreign key, wrong ordinal, "
                     "legacy names, duplicates across two directories, missing table A, plotted / not) materialised as real files; non-trivial = "
                     "contains at least one file that is not a plain good one; plus request sequences with Remove / Delete / Restart on real files")
    v.assumptions = ["plotted files carry one genuine proof found by search and a final checkpoint (not a full plot)",
                     "scripted wallet owning three keys", "upper-case hex in current-format names is not generated (see DESIGN.md)"]
    return v.finish()


def replay(prop, path, seed):
    v = vlib.Verdict(prop, "quick", seed)
    d = vlib.scratch("c11r-")
    vlib.prep_specs(d)
    drv = vlib.build("capdrv")
    r = json.load(open(path))["replay"]
    scen = [r["scenario"]]
    sf, tf = os.path.join(d, "scen.json"), os.path.join(d, "trace.ndjson")
    json.dump(scen, open(sf, "w"))
    vlib.run_driver(drv, sf, tf, ["-workers", "1"])
    traces = vlib.read_traces(tf)
    if scen[0].get("opt", {}).get("kind") == "index":
        acc, hw, stats = vlib.tlc_validate(d, "KeeperIndexTrace.tla", "KeeperIndexTrace.cfg", [t["ev"] for t in traces])
        if 0 not in acc:
            v.classify(dict(cause="index_rejected"), "replayed directory content rejected", dict(scenario=scen[0]))
    else:
        cap.validate(v, d, scen, traces)
    v.cov.update(states=1, transitions=1, evaluations=1, distinct_nontrivial=1, samples=["replay"])
    return v.finish()
