"""Shared machinery for /verif/check: build the Go harness against /repo, run TLC
(model check / behaviour generation / trace validation), verdicts, evidence, known findings.

stdlib only.  Exit codes: 0 held, 1 violation (real-code behaviour rejected by the
specification and not a listed known finding), 2 machinery failure.
"""
import json, os, re, shutil, subprocess, sys, tempfile, time, hashlib

VERIF = os.path.dirname(os.path.dirname(os.path.abspath(__file__)))
REPO = os.environ.get("VERIF_REPO", "/repo")
SPECS = os.path.join(VERIF, "specs")
HARNESS = os.path.join(VERIF, "harness")
BUILD = os.path.join(VERIF, ".build")
EVID = os.environ.get("VERIF_EVIDENCE_DIR") or os.path.join(VERIF, "evidence")
REPLAYS = os.environ.get("VERIF_REPLAY_DIR") or os.path.join(VERIF, "replays")
TLAJARS = "/opt/veriftools/tla/tla2tools.jar:/opt/veriftools/tla/CommunityModules-deps.jar"
NCPU = os.cpu_count() or 4


CURRENT = None      # the verdict object of the running check (see ./check: a demonstrated divergence stands)


class Machinery(Exception):
    """something in the checking machinery failed; never a verdict"""


def log(*a):
    print(*a, flush=True)


def goenv():
    e = dict(os.environ)
    e.update(GOFLAGS="-mod=mod", GOPROXY="off", GOSUMDB="off", GOTOOLCHAIN="local")
    return e


_scratch_dirs = []


def scratch(prefix="verif-"):
    base = os.environ.get("TMPDIR") or "/tmp"
    d = tempfile.mkdtemp(prefix=prefix, dir=base)
    _scratch_dirs.append(d)
    return d


def cleanup():
    if os.environ.get("VERIF_KEEP"):
        log("scratch kept:", _scratch_dirs)
        return
    for d in _scratch_dirs:
        shutil.rmtree(d, ignore_errors=True)
    # the chain library's logger, where a driver leaves it at its default, writes /tmp/tmp-mass.log-*.log: nothing reads
    # them; keep them from growing without bound
    import glob
    for f in glob.glob("/tmp/tmp-mass.log-*.log"):
        try:
            if os.path.getsize(f) > 200 << 20:
                open(f, "w").close()
        except OSError:
            pass


def build(cmd, race=False, tags="verif"):
    """go build ./cmd/<cmd> of the harness module against /repo's current working tree."""
    os.makedirs(BUILD, exist_ok=True)
    hdir, bdir = HARNESS, BUILD
    if os.path.realpath(REPO) != "/repo":
        # testing the checks against a scratch copy of the repository (seeded changes): build a private copy of the
        # harness module whose replace directive points there
        hdir = os.path.join(scratch("harness-"), "harness")
        shutil.copytree(HARNESS, hdir)
        gm = open(os.path.join(hdir, "go.mod")).read().replace("=> /repo", "=> " + os.path.realpath(REPO))
        open(os.path.join(hdir, "go.mod"), "w").write(gm)
        bdir = os.path.join(os.path.dirname(hdir), "build")
        os.makedirs(bdir, exist_ok=True)
    shutil.copyfile(os.path.join(REPO, "go.sum"), os.path.join(hdir, "go.sum"))
    out = os.path.join(bdir, cmd + ("-race" if race else ""))
    args = ["go", "build", "-tags", tags, "-o", out]
    if race:
        args.append("-race")
    args.append("./cmd/" + cmd)
    t = time.time()
    p = subprocess.run(args, cwd=hdir, env=goenv(), stdout=subprocess.PIPE, stderr=subprocess.STDOUT, text=True)
    if p.returncode != 0:
        msg = "\n".join(l for l in p.stdout.splitlines() if "GNU-stack" not in l and "deprecated" not in l)
        raise Machinery("harness build failed for %s:\n%s" % (cmd, msg[-4000:]))
    log("built %s in %.1fs" % (os.path.basename(out), time.time() - t))
    return out


def prep_specs(dst, files=None):
    """copy specification files into a scratch directory (TLC litters its cwd)"""
    for f in os.listdir(SPECS):
        if f.endswith(".tla") or f.endswith(".cfg"):
            if files is None or f in files or True:
                shutil.copyfile(os.path.join(SPECS, f), os.path.join(dst, f))


def _java(args, cwd, timeout, deque=False, xss=None, heap=None):
    cmd = ["java", "-XX:+UseParallelGC"]
    if heap:
        cmd.append("-Xmx" + heap)
    if xss:
        cmd.append("-Xss" + xss)
    if deque:
        cmd.append("-Dtlc2.tool.queue.IStateQueue=StateDeque")
    cmd += ["-cp", TLAJARS, "tlc2.TLC"] + args
    t = time.time()
    try:
        p = subprocess.run(cmd, cwd=cwd, stdout=subprocess.PIPE, stderr=subprocess.STDOUT, text=True, timeout=timeout)
    except subprocess.TimeoutExpired as ex:
        out = ex.stdout if isinstance(ex.stdout, str) else (ex.stdout or b"").decode("utf8", "replace")
        return 124, out, time.time() - t
    return p.returncode, p.stdout, time.time() - t


_re_states = re.compile(r"(\d+) states generated, (\d+) distinct states found, (\d+) states left on queue")
_re_depth = re.compile(r"The depth of the complete state graph search is (\d+)")


def tlc_mc(cwd, spec, cfg, workers=None, timeout=600, coverage=False, heap=None, extra=None, allow_incomplete=False):
    """exhaustive TLC run of a bounded configuration.  Returns dict(states, distinct, depth, wall, out).
    A violated invariant / property of the *model* is a machinery failure (the model is wrong or
    a mechanism model found a candidate schedule - callers that expect candidates parse them
    themselves with allow_violation)."""
    meta = os.path.join(cwd, "meta-" + cfg.replace(".cfg", ""))
    args = ["-config", cfg, "-workers", str(workers or min(NCPU, 8)), "-metadir", meta, "-noGenerateSpecTE"]
    if coverage:
        args += ["-coverage", "1"]
    if extra:
        args += extra
    args.append(spec)
    rc, out, wall = _java(args, cwd, timeout, heap=heap)
    shutil.rmtree(meta, ignore_errors=True)
    m = None
    for m in _re_states.finditer(out):
        pass
    res = dict(rc=rc, out=out, wall=wall, states=0, distinct=0, depth=0)
    if m:
        res["states"], res["distinct"], res["left"] = int(m.group(1)), int(m.group(2)), int(m.group(3))
    d = _re_depth.search(out)
    if d:
        res["depth"] = int(d.group(1))
    res["complete"] = ("Model checking completed. No error has been found." in out)
    res["violated"] = re.findall(r"Error: (Invariant \S+ is violated|Action property \S+ is violated|Temporal properties were violated|Temporal property \S+ was violated|Deadlock reached)", out)
    if rc == 124 and not allow_incomplete:
        raise Machinery("TLC timed out after %ds on %s/%s" % (timeout, spec, cfg))
    return res


def require_mc_ok(res, what):
    if not res["complete"]:
        tail = "\n".join(res["out"].splitlines()[-40:])
        raise Machinery("model check of %s did not complete cleanly (rc=%s, violated=%s):\n%s" % (what, res["rc"], res["violated"], tail))


def coverage_zero(out, module):
    """names of top-level actions of `module` that TLC never took (from -coverage 1 output)"""
    zero = []
    for m in re.finditer(r"<(\w+) line \d+, col \d+ to line \d+, col \d+ of module (\w+)>: (\d+):(\d+)", out):
        if m.group(2) == module and m.group(4) == "0":
            zero.append(m.group(1))
    return sorted(set(zero))


_re_beh = re.compile(r'<<\s*"BEHAVIOUR",\s*"((?:[^"\\]|\\.)*)"\s*>>')


def _unescape_tla(s):
    # TLC prints strings with \" and \\ escapes; JSON inside uses \" for quotes
    return s.replace('\\"', '"').replace("\\\\", "\\")


def parse_behaviours(out):
    res = []
    for m in _re_beh.finditer(out):
        try:
            res.append(json.loads(_unescape_tla(m.group(1))))
        except Exception as ex:
            raise Machinery("cannot parse behaviour line: %s (%s)" % (m.group(0)[:200], ex))
    return res


def tlc_generate(cwd, spec, cfg, num, depth, seed, timeout=300):
    """tlc -simulate: random behaviours of exactly `depth` steps, printed by the Emit invariant."""
    meta = os.path.join(cwd, "meta-gen")
    args = ["-config", cfg, "-workers", "1", "-metadir", meta, "-noGenerateSpecTE",
            "-simulate", "num=%d" % num, "-depth", str(depth + 1), "-seed", str(seed), spec]
    rc, out, wall = _java(args, cwd, timeout)
    shutil.rmtree(meta, ignore_errors=True)
    behs = parse_behaviours(out)
    if not behs:
        raise Machinery("TLC generated no behaviours (%s/%s rc=%s):\n%s" % (spec, cfg, rc, "\n".join(out.splitlines()[-30:])))
    # In simulation mode TLC evaluates the Emit invariant on every candidate successor of the last step, so one
    # random run is printed several times with different last steps: keep one behaviour per run.
    seen, uniq = set(), []
    for b in behs:
        h = scen_hash(b[:-1])
        if h not in seen:
            seen.add(h)
            uniq.append(b)
    return uniq, wall


def tlc_enumerate(cwd, spec, cfg, timeout=600, workers=None):
    """BFS with the history variable in the state and CONSTRAINT Len(hist) <= k: prints every behaviour
    of length k (Emit invariant at level k+1)."""
    meta = os.path.join(cwd, "meta-enum")
    args = ["-config", cfg, "-workers", str(workers or 1), "-metadir", meta, "-noGenerateSpecTE", spec]
    rc, out, wall = _java(args, cwd, timeout)
    shutil.rmtree(meta, ignore_errors=True)
    behs = parse_behaviours(out)
    if not behs:
        raise Machinery("TLC enumerated no behaviours (%s/%s rc=%s):\n%s" % (spec, cfg, rc, "\n".join(out.splitlines()[-30:])))
    return behs, wall


_re_acc = re.compile(r'<<\s*"ACCEPTED",\s*"((?:[^"\\]|\\.)*)"\s*>>')
_re_hw = re.compile(r'<<\s*"HW",\s*"((?:[^"\\]|\\.)*)"\s*>>')
_re_flags = re.compile(r'<<\s*"FLAGS",\s*"((?:[^"\\]|\\.)*)"\s*>>')


def tlc_validate(cwd, spec, cfg, traces, timeout=900, deque=True, fname="traces.ndjson", xss="64m"):
    """Trace validation.  `traces` is a list of lists of event dicts (one inner list per scenario).
    Writes them as ndjson (one scenario per line: {"ev":[...]}) and lets TLC decide, per scenario,
    whether the recorded execution is a behaviour of the specification.
    Returns (accepted: set of 0-based indices, hw: list of matched-prefix lengths, stats)."""
    with open(os.path.join(cwd, fname), "w") as f:
        for t in traces:
            f.write(json.dumps({"ev": t}, separators=(",", ":")) + "\n")
    meta = os.path.join(cwd, "meta-val")
    args = ["-config", cfg, "-workers", "1", "-metadir", meta, "-noGenerateSpecTE", "-deadlock", spec]
    rc, out, wall = _java(args, cwd, timeout, deque=deque, xss=xss)
    shutil.rmtree(meta, ignore_errors=True)
    a = _re_acc.search(out)
    h = _re_hw.search(out)
    if rc == 124 or not a or not h:
        raise Machinery("trace validation run failed (%s/%s rc=%s):\n%s" % (spec, cfg, rc, "\n".join(out.splitlines()[-40:])))
    acc = set(i - 1 for i in json.loads(_unescape_tla(a.group(1))))
    hw = json.loads(_unescape_tla(h.group(1)))
    m = None
    for m in _re_states.finditer(out):
        pass
    stats = dict(wall=wall, states=int(m.group(2)) if m else 0, transitions=int(m.group(1)) if m else 0, out=out, flags=[])
    fl = _re_flags.search(out)
    if fl:
        # known-deviation disjuncts taken: list of [scenario index (1-based), tag]
        stats["flags"] = [(int(x[0]) - 1, x[1]) for x in json.loads(_unescape_tla(fl.group(1)))]
    if os.environ.get("VERIF_BINDING_PROBE") and not _probing[0] and acc:
        _binding_probe(cwd, spec, cfg, traces, acc, timeout, deque, xss)
    return acc, hw, stats


# ---------------------------------------------------------------- binding probe
# With VERIF_BINDING_PROBE=1 every trace validation is followed by a second one on corrupted copies of accepted
# traces (one scalar field of one event altered per copy).  How many of the corrupted traces the specification
# rejects, per field, goes into the evidence file: it shows which recorded fields the specification actually
# constrains.  It never influences the verdict.
_probing = [False]
PROBE = {}


def _corrupt(v, rnd):
    if isinstance(v, bool):
        return not v
    if isinstance(v, int):
        return v + 1 + rnd.randrange(3)
    if isinstance(v, str):
        return v + "~"
    return None


def _scalar_paths(e, prefix=()):
    out = []
    if isinstance(e, dict):
        for k, v in e.items():
            if k in ("step", "sc", "seed", "ms", "signms", "note", "err", "msg", "records"):
                continue
            if isinstance(v, (bool, int, str)):
                out.append(prefix + (k,))
            elif isinstance(v, (dict, list)):
                out += _scalar_paths(v, prefix + (k,))
    elif isinstance(e, list):
        for i, v in enumerate(e):
            if isinstance(v, (bool, int, str)):
                out.append(prefix + (i,))
            elif isinstance(v, (dict, list)):
                out += _scalar_paths(v, prefix + (i,))
    return out


def _binding_probe(cwd, spec, cfg, traces, acc, timeout, deque, xss):
    import copy, random
    rnd = random.Random(12345)
    picks = sorted(acc)
    rnd.shuffle(picks)
    picks = picks[:int(os.environ.get("VERIF_BINDING_PROBE_N", "40"))]
    bad, what = [], []
    for i in picks:
        t = copy.deepcopy(traces[i])
        if not t:
            continue
        for _ in range(10):
            k = rnd.randrange(len(t))
            paths = _scalar_paths(t[k])
            if paths:
                break
        else:
            continue
        path = rnd.choice(paths)
        o = t[k]
        for q in path[:-1]:
            o = o[q]
        nv = _corrupt(o[path[-1]], rnd)
        if nv is None:
            continue
        o[path[-1]] = nv
        bad.append(t)
        what.append(".".join(str(q) for q in path if not isinstance(q, int)) or "item")
    if not bad:
        return
    _probing[0] = True
    key = spec
    rec = PROBE.setdefault(key, dict(corrupted=0, rejected=0, by_field={}))
    try:
        # a corrupted value may be outside what the specification can evaluate at all (TLC error): probe one by one then
        try:
            a2, _, _ = tlc_validate(cwd, spec, cfg, bad, timeout=timeout, deque=deque, xss=xss)
            results = [(j not in a2) for j in range(len(bad))]
        except Machinery:
            results = []
            for t in bad[:12]:
                try:
                    a2, _, _ = tlc_validate(cwd, spec, cfg, [t], timeout=120, deque=deque, xss=xss)
                    results.append(0 not in a2)
                except Machinery:
                    results.append(True)   # not evaluable = not accepted
            what = what[:len(results)]
        for w, r in zip(what, results):
            rec["corrupted"] += 1
            rec["rejected"] += 1 if r else 0
            f = rec["by_field"].setdefault(w, [0, 0])
            f[0] += 1
            f[1] += 1 if r else 0
    finally:
        _probing[0] = False


def run_driver(binpath, scen_file, trace_file, extra=None, timeout=900, env=None, cwd=None):
    args = [binpath, "-scenarios", scen_file, "-out", trace_file] + (extra or [])
    t = time.time()
    try:
        p = subprocess.run(args, stdout=subprocess.PIPE, stderr=subprocess.STDOUT, text=True, timeout=timeout, env=env, cwd=cwd)
    except subprocess.TimeoutExpired:
        raise Machinery("driver %s timed out after %ds" % (os.path.basename(binpath), timeout))
    if p.returncode != 0:
        raise Machinery("driver %s failed rc=%d:\n%s" % (os.path.basename(binpath), p.returncode, p.stdout[-3000:]))
    # goroutine dumps of children that stalled are kept for diagnosis (the scratch directory is not)
    import glob
    for f in glob.glob(trace_file + ".stall*.log"):
        try:
            dst = os.path.join(os.environ.get("VERIF_REPLAY_DIR") or os.path.join(VERIF, "replays"), "stall-%s-%d-%s" % (os.path.basename(binpath), int(time.time()), os.path.basename(f)))
            os.makedirs(os.path.dirname(dst), exist_ok=True)
            shutil.copyfile(f, dst)
            log("NOTE a driver child stalled; its goroutine dump is in %s" % dst)
        except OSError:
            pass
    return p.stdout, time.time() - t


def read_traces(trace_file):
    """driver output: ndjson, one line per scenario {"sc":n,"ev":[...], ...}"""
    res = []
    with open(trace_file) as f:
        for line in f:
            line = line.strip()
            if line:
                res.append(json.loads(line))
    return res


# ---------------------------------------------------------------- known findings

def known_findings(prop):
    p = os.path.join(VERIF, "known_findings.json")
    if not os.path.exists(p):
        return []
    with open(p) as f:
        kf = json.load(f)
    return [e for e in kf.get("findings", []) if e.get("property") == prop]


def match_known(prop, cause):
    """cause: a dict the check computed from the rejected trace, e.g. {"cause": "...", "site": "..."}.
    An open finding matches when every key of its `match` equals the cause's value."""
    for e in known_findings(prop):
        if e.get("status") != "open":
            continue
        m = e.get("match", {})
        if m and all(cause.get(k) == v for k, v in m.items()):
            return e
    return None


# ---------------------------------------------------------------- verdicts / evidence

class Verdict:
    def __init__(self, prop, tier, seed, level="model_checking"):
        global CURRENT
        CURRENT = self
        self.prop, self.tier, self.seed, self.level = prop, tier, seed, level
        self.t0 = time.time()
        self.violations = []      # (replay path, description)
        self.known_hit = {}       # tag -> description
        self.cov = dict(states=0, transitions=0, traces_validated_against_impl=0, samples=[],
                        evaluations=0, distinct_nontrivial=0, rule="")
        self.assumptions = []

    def violation(self, desc, replay_obj):
        os.makedirs(REPLAYS, exist_ok=True)
        h = hashlib.sha1(json.dumps(replay_obj, sort_keys=True, default=str).encode()).hexdigest()[:12]
        path = os.path.join(REPLAYS, "%s-%s.json" % (self.prop, h))
        with open(path, "w") as f:
            json.dump(dict(property=self.prop, description=desc, replay=replay_obj), f, indent=1, default=str)
        self.violations.append((path, desc))
        log("DIVERGENCE %s: %s" % (self.prop, desc))

    def known(self, entry, what):
        self.known_hit.setdefault(entry["tag"], (entry.get("property", self.prop), what))

    def classify(self, cause, desc, replay_obj):
        """route a real-code divergence: listed known finding or violation"""
        e = match_known(self.prop, cause)
        if e:
            self.known(e, desc)
        else:
            replay_obj = dict(replay_obj)
            replay_obj["cause"] = cause
            self.violation(desc, replay_obj)

    def finish(self):
        wall = time.time() - self.t0
        self.cov["known_findings_hit"] = sorted(self.known_hit)
        if PROBE:
            self.cov["binding_probe"] = {k: dict(corrupted=v["corrupted"], rejected=v["rejected"],
                                                 fields_never_rejected=sorted(f for f, c in v["by_field"].items() if c[1] == 0),
                                                 by_field={f: "%d/%d" % (c[1], c[0]) for f, c in sorted(v["by_field"].items())}) for k, v in PROBE.items()}
            for k, v in PROBE.items():
                log("binding probe %s: %d of %d corrupted traces rejected; never rejected when altered: %s" % (
                    k, v["rejected"], v["corrupted"], sorted(f for f, c in v["by_field"].items() if c[1] == 0)))
        ev = dict(property_id=self.prop, tier=self.tier, seed=self.seed, level=self.level,
                  coverage=self.cov, assumptions=self.assumptions, wall_s=round(wall, 2),
                  violations=len(self.violations))
        os.makedirs(EVID, exist_ok=True)
        with open(os.path.join(EVID, self.prop + ".json"), "w") as f:
            json.dump(ev, f, indent=1, default=str)
        for tag, (kprop, what) in sorted(self.known_hit.items()):
            log("KNOWN-FINDING: property=%s %s: %s" % (kprop, tag, what))
        for path, desc in self.violations:
            log("VIOLATION property=%s replay=%s" % (self.prop, path))
        log("%s %s seed=%d: %s in %.1fs (scenarios=%d, traces validated=%d, MC states=%d)" % (
            self.prop, self.tier, self.seed, "VIOLATED" if self.violations else "held", wall,
            self.cov.get("evaluations", 0), self.cov.get("traces_validated_against_impl", 0), self.cov.get("states", 0)))
        return 1 if self.violations else 0


def scen_hash(actions):
    return hashlib.sha1(json.dumps(actions, sort_keys=True).encode()).hexdigest()


def dedup(behs):
    seen, out = set(), []
    for b in behs:
        h = scen_hash(b)
        if h not in seen:
            seen.add(h)
            out.append(b)
    return out
