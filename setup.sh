#!/bin/bash
# Run once after a fresh restore (offline): warm the Go build cache for every driver and parse every specification.
set -e
cd "$(dirname "$0")"
export GOFLAGS=-mod=mod GOPROXY=off GOSUMDB=off GOTOOLCHAIN=local
mkdir -p .build evidence replays
cp /repo/go.sum harness/go.sum
( cd harness && for d in cmd/*/; do n=$(basename $d); go build -tags verif -o ../.build/$n ./cmd/$n 2>&1 | grep -v -e GNU-stack -e deprecated -e '^#' || true; done )
T=$(mktemp -d); cp specs/*.tla "$T"/
# proof modules extend TLAPS, which belongs to the proof system's library (they are checked by tlapm in the thorough tier)
[ -f /opt/veriftools/tlapm/lib/tlapm/stdlib/TLAPS.tla ] && cp /opt/veriftools/tlapm/lib/tlapm/stdlib/TLAPS.tla "$T"/ || rm -f "$T"/*Proof.tla
( cd "$T" && for f in *.tla; do java -cp /opt/veriftools/tla/tla2tools.jar:/opt/veriftools/tla/CommunityModules-deps.jar tla2sany.SANY "$f" > "$f.sany" 2>&1 || { echo "SANY failed on $f"; cat "$f.sany"; exit 1; }; done )
rm -rf "$T"
echo setup ok
