package main

import (
	"bytes"
	"context"
	"encoding/binary"
	"net"
	"runtime"
	"time"

	"massnet.org/mass/fractal/connection"

	"verifharness/vh"
)

const recvLimit = 2 * 1024 * 1024 // connection's default receive limit (options.go)

// frameOne: one case of specs/Framing.tla on a real connection.Conn over a loopback TCP pair; the peer side is a raw
// socket so that any length prefix can be written.
func frameOne(g *gen, fr map[string]interface{}) vh.Event {
	ev := vh.Event{"a": "Frame", "frame": fr, "deliv": []string{}, "alive": false, "bounded": true}
	ln, err := net.Listen("tcp", "127.0.0.1:0")
	if err != nil {
		ev["note"] = "listen: " + err.Error()
		return ev
	}
	defer ln.Close()
	acc := make(chan net.Conn, 1)
	go func() {
		c, e := ln.Accept()
		if e == nil {
			acc <- c
		}
	}()
	peer, err := net.Dial("tcp", ln.Addr().String())
	if err != nil {
		ev["note"] = "dial: " + err.Error()
		return ev
	}
	defer peer.Close()
	var srv net.Conn
	select {
	case srv = <-acc:
	case <-time.After(2 * time.Second):
		ev["note"] = "accept timeout"
		return ev
	}
	conn, cancel, err := connection.NewConn(connection.WithNetConn(srv), connection.KeepaliveInterval(0))
	if err != nil {
		ev["note"] = "NewConn: " + err.Error()
		return ev
	}
	defer cancel()

	var n uint32
	switch fr["len"] {
	case "zero":
		n = 0
	case "one":
		n = 1
	case "small":
		n = uint32(2 + g.r.Intn(4000))
	case "limit":
		n = recvLimit
	case "limitplus1":
		n = recvLimit + 1
	case "huge":
		n = []uint32{0xffffffff, 0x80000000, 0x7fffffff, 64 << 20}[g.r.Intn(4)]
	}
	payload := []byte{}
	if fr["len"] == "one" || fr["len"] == "small" || fr["len"] == "limit" {
		payload = make([]byte, n)
		g.r.Read(payload)
	}
	good := make([]byte, 5+g.r.Intn(60))
	g.r.Read(good)

	var ms0, ms1 runtime.MemStats
	runtime.GC()
	runtime.ReadMemStats(&ms0)

	var hdr [4]byte
	binary.BigEndian.PutUint32(hdr[:], n)
	peer.SetWriteDeadline(time.Now().Add(3 * time.Second))
	peer.Write(hdr[:])
	switch fr["sent"] {
	case "all":
		peer.Write(payload)
	case "short":
		k := len(payload) / 2
		if n > recvLimit {
			k = 1000 // some bytes of an oversize frame
			peer.Write(make([]byte, k))
		} else {
			peer.Write(payload[:k])
		}
	}
	if fr["next"] == "good" {
		binary.BigEndian.PutUint32(hdr[:], uint32(len(good)))
		peer.Write(hdr[:])
		peer.Write(good)
	} else {
		peer.Close()
	}
	deliv := []string{}
	alive := true
	for {
		ctx, c := context.WithTimeout(context.Background(), 700*time.Millisecond)
		data, err := conn.Read(ctx)
		expired := ctx.Err() != nil
		c()
		if err != nil {
			// a deadline means: connection still up and nothing (more) to hand over; anything else: it is down
			alive = expired && !conn.Stopped()
			break
		}
		switch {
		case bytes.Equal(data, payload) && len(payload) > 0:
			deliv = append(deliv, "payload")
		case bytes.Equal(data, good):
			deliv = append(deliv, "good")
		default:
			deliv = append(deliv, "other")
		}
	}
	runtime.ReadMemStats(&ms1)
	// the receiver may hold at most the frames within the limit; an announced length beyond it must not be allocated
	grown := int64(ms1.TotalAlloc) - int64(ms0.TotalAlloc)
	ev["deliv"], ev["alive"] = deliv, alive
	ev["bounded"] = grown < 3*recvLimit+(8<<20)
	ev["allocated"] = grown
	return ev
}
