// codecdrv concretises every abstract frame of specs/Codec.tla (several byte-level representatives per class,
// seeded) and feeds it to the real fractal/protocol.DecodeMessage under recover with a time budget.  For frames
// that decode it checks the decoded values against what was put in, re-encodes and decodes again (lossless), and
// checks that the bytes returned by an earlier EncodeMessage are not disturbed by a later one.
package main

import (
	"bytes"
	"encoding/hex"
	"encoding/json"
	"flag"
	"fmt"
	"github.com/massnetorg/mass-core/logging"
	"math/rand"
	"os"
	"reflect"
	"strings"
	"time"

	"github.com/google/uuid"
	"github.com/massnetorg/mass-core/poc/chiapos"

	"massnet.org/mass/fractal/protocol"

	"verifharness/vh"
)

var typeTag = map[string]uint16{"RequestQualities": 1, "ReportQualities": 2, "RequestProof": 3, "ReportProof": 4, "RequestSignature": 5, "ReportSignature": 6}

var fields = map[string][][2]string{
	"RequestQualities": {{"task_id", "uuid"}, {"challenge", "hash"}, {"parent_target", "hexint"}, {"parent_slot", "u64"}, {"height", "u64"}},
	"ReportQualities":  {{"task_id", "uuid"}, {"qualities", "qlist"}},
	"RequestProof":     {{"task_id", "uuid"}, {"height", "u64"}, {"space_id", "str"}, {"challenge", "hash"}, {"index", "u32"}},
	"ReportProof":      {{"task_id", "uuid"}, {"proof", "pobj"}},
	"RequestSignature": {{"task_id", "uuid"}, {"height", "u64"}, {"space_id", "str"}, {"hash", "hash"}},
	"ReportSignature":  {{"task_id", "uuid"}, {"space_id", "str"}, {"hash", "hash"}, {"signature", "g2"}},
	"Quality": {{"space_id", "str"}, {"public_key", "g1"}, {"pool_public_key", "g1"}, {"index", "u32"}, {"k_size", "u8"},
		{"quality", "hexbytes"}, {"plot_id", "hash"}, {"slot", "u64"}},
	"Proof": {{"space_id", "str"}, {"challenge", "hash"}, {"pool_public_key", "g1"}, {"plot_public_key", "g1"}, {"k_size", "u8"}, {"proof", "hexbytes"}},
}

type gen struct {
	r   *rand.Rand
	g1s []string
	g2s []string
}

func newGen(seed int64) *gen {
	g := &gen{r: vh.Rng(seed)}
	scheme := chiapos.NewAugSchemeMPL()
	for i := 0; i < 4; i++ {
		sd := make([]byte, 32)
		g.r.Read(sd)
		sk, err := scheme.KeyGen(sd)
		if err != nil {
			vh.Fatal("bls keygen: %v", err)
		}
		pk, err := sk.GetG1()
		if err != nil {
			vh.Fatal("bls g1: %v", err)
		}
		sig, err := scheme.Sign(sk, sd)
		if err != nil {
			vh.Fatal("bls sign: %v", err)
		}
		g.g1s = append(g.g1s, hex.EncodeToString(pk.Bytes()))
		g.g2s = append(g.g2s, hex.EncodeToString(sig.Bytes()))
	}
	return g
}

func (g *gen) hexn(n int) string {
	b := make([]byte, n)
	g.r.Read(b)
	return hex.EncodeToString(b)
}
func q(s string) string                   { b, _ := json.Marshal(s); return string(b) }
func (g *gen) pick(opts ...string) string { return opts[g.r.Intn(len(opts))] }

const omit = "\x00omit"

// value returns the JSON text for a field of `kind` in class `class` (omit = leave the key out) and, for accepted
// classes, the canonical JSON text the decoded message must show for it ("" = not compared).
func (g *gen) value(kind, class string) (string, string) {
	max := map[string]string{"u64": "18446744073709551615", "u32": "4294967295", "u8": "255"}
	over := map[string]string{"u64": "18446744073709551616", "u32": "4294967296", "u8": "256"}
	switch class {
	case "absent":
		return omit, zeroOf(kind)
	case "null":
		return "null", zeroOf(kind)
	}
	switch kind {
	case "uuid":
		u := uuid.New()
		g.r.Read(u[:])
		u[6], u[8] = (u[6]&0x0f)|0x40, (u[8]&0x3f)|0x80
		s := u.String()
		switch class {
		case "valid":
			return q(s), q(s)
		case "altsyntax":
			return q(g.pick("urn:uuid:"+s, "{"+s+"}", strings.ReplaceAll(s, "-", ""), strings.ToUpper(s))), q(s)
		case "number":
			return "12345", ""
		case "malformed":
			return q(g.pick("not-a-uuid", s[:35], s+"0", "zzzzzzzz"+s[8:], s[:8]+"_"+s[9:], " "+s)), ""
		case "empty":
			return `""`, ""
		}
	case "hash":
		h := g.hexn(32)
		switch class {
		case "valid":
			return q(h), q(h)
		case "uppercase":
			return q(strings.ToUpper(h)), q(h)
		case "number":
			return "7", ""
		case "short":
			return q(h[:62]), ""
		case "long":
			return q(h + "00"), ""
		case "nonhex":
			return q("zz" + h[2:]), ""
		}
	case "hexint":
		switch class {
		case "valid":
			h := "01" + g.hexn(1+g.r.Intn(31))
			return q(h), q(h)
		case "empty":
			return `""`, `""`
		case "leadingzeros":
			return q("0000ab"), q("ab")
		case "large":
			h := "ff" + g.hexn(63)
			return q(h), q(h)
		case "number":
			return "255", ""
		case "oddhex":
			return q("abc"), ""
		case "nonhex":
			return q("xyz1"), ""
		}
	case "u64", "u32", "u8":
		switch class {
		case "valid":
			n := 1 + g.r.Intn(200)
			return fmt.Sprint(n), fmt.Sprint(n)
		case "zero":
			return "0", "0"
		case "max":
			return max[kind], max[kind]
		case "overflow":
			return over[kind], ""
		case "negative":
			return "-1", ""
		case "float":
			return "1.5", ""
		case "string":
			return `"5"`, ""
		case "exponent":
			return "1e2", ""
		}
	case "str":
		switch class {
		case "valid":
			s := "space-" + g.hexn(4)
			return q(s), q(s)
		case "empty":
			return `""`, `""`
		case "unicode":
			s := "空间 \u0000 \" \\   é"
			return q(s), q(s)
		case "long":
			s := strings.Repeat("s", 20000)
			return q(s), q(s)
		case "number":
			return "5", ""
		case "object":
			return "{}", ""
		}
	case "g1", "g2":
		n, pool := 48, g.g1s
		if kind == "g2" {
			n, pool = 96, g.g2s
		}
		v := pool[g.r.Intn(len(pool))]
		switch class {
		case "valid":
			return q(v), q(v)
		case "infinity":
			inf := "c0" + strings.Repeat("00", n-1)
			return q(inf), q(inf)
		case "number":
			return "1", ""
		case "oddhex":
			return q(v[:len(v)-1]), ""
		case "short":
			return q(g.pick(v[:len(v)-2], "", "ab")), ""
		case "long":
			return q(v + "00"), ""
		case "notoncurve":
			return q(g.pick(strings.Repeat("ff", n), "00"+v[2:], strings.Repeat("00", n))), ""
		}
	case "hexbytes":
		switch class {
		case "valid":
			h := g.hexn(1 + g.r.Intn(64))
			return q(h), q(h)
		case "empty":
			return `""`, `""`
		case "long":
			h := g.hexn(100000)
			return q(h), q(h)
		case "number":
			return "9", ""
		case "oddhex":
			return q("abc"), ""
		case "nonhex":
			return q("gg"), ""
		}
	}
	return `"?unknown-class"`, ""
}

func zeroOf(kind string) string {
	switch kind {
	case "u64", "u32", "u8":
		return "0"
	case "hexint", "str", "hexbytes":
		return `""`
	}
	return ""
}

// object renders a JSON object for abstract object `obj` (field -> class); expect gets the canonical field texts
func (g *gen) object(obj string, cls map[string]interface{}, expect map[string]string) string {
	parts := []string{}
	fl := append([][2]string{}, fields[obj]...)
	g.r.Shuffle(len(fl), func(i, j int) { fl[i], fl[j] = fl[j], fl[i] })
	for _, f := range fl {
		name, kind := f[0], f[1]
		var txt string
		switch kind {
		case "pobj":
			c := cls[name].(map[string]interface{})
			switch c["k"] {
			case "absent":
				txt = omit
			case "null":
				txt = "null"
			case "string":
				txt = `"x"`
			case "array":
				txt = "[]"
			case "obj":
				txt = g.object("Proof", c["o"].(map[string]interface{}), nil)
			}
		case "qlist":
			c := cls[name].(map[string]interface{})
			valid := map[string]interface{}{}
			for _, f2 := range fields["Quality"] {
				valid[f2[0]] = "valid"
			}
			switch c["k"] {
			case "absent":
				txt = omit
			case "null":
				txt = "null"
			case "empty":
				txt = "[]"
			case "string":
				txt = `"x"`
			case "hasnull":
				txt = "[null]"
			case "nullthenvalid":
				txt = "[null," + g.object("Quality", valid, nil) + "]"
			case "one":
				txt = "[" + g.object("Quality", c["o"].(map[string]interface{}), nil) + "]"
			case "two":
				txt = "[" + g.object("Quality", valid, nil) + "," + g.object("Quality", c["o"].(map[string]interface{}), nil) + "]"
			}
		default:
			class, _ := cls[name].(string)
			var exp string
			txt, exp = g.value(kind, class)
			if expect != nil && exp != "" {
				expect[name] = exp
			}
		}
		if txt != omit {
			parts = append(parts, q(name)+":"+txt)
		}
	}
	return "{" + strings.Join(parts, ",") + "}"
}

func (g *gen) frameBytes(fr map[string]interface{}) ([]byte, map[string]string, string) {
	prefix, _ := fr["prefix"].(string)
	typ, _ := fr["type"].(string)
	raw, _ := fr["raw"].(string)
	validCls := func(t string) map[string]interface{} {
		m := map[string]interface{}{}
		for _, f := range fields[t] {
			switch f[1] {
			case "pobj":
				o := map[string]interface{}{}
				for _, f2 := range fields["Proof"] {
					o[f2[0]] = "valid"
				}
				m[f[0]] = map[string]interface{}{"k": "obj", "o": o}
			case "qlist":
				m[f[0]] = map[string]interface{}{"k": "empty"}
			default:
				m[f[0]] = "valid"
			}
		}
		return m
	}
	tag := func(n uint16) []byte { return []byte{byte(n >> 8), byte(n)} }
	switch prefix {
	case "empty":
		return []byte{}, nil, ""
	case "onebyte":
		return []byte{byte(g.r.Intn(256))}, nil, ""
	case "reserved0":
		return append(tag(0), []byte(g.object("RequestProof", validCls("RequestProof"), nil))...), nil, ""
	case "unknown7":
		return append(tag(uint16(7+g.r.Intn(1000))), []byte(g.object("RequestProof", validCls("RequestProof"), nil))...), nil, ""
	case "unknown65535":
		return append(tag(65535), []byte(g.object("RequestProof", validCls("RequestProof"), nil))...), nil, ""
	}
	expect := map[string]string{}
	var body string
	switch raw {
	case "object":
		body = g.object(typ, fr["body"].(map[string]interface{}), expect)
	case "nothing":
		body = ""
	case "null":
		body = "null"
	case "array":
		body = "[1,2]"
	case "string":
		body = `"task"`
	case "number":
		body = "42"
	case "truncated":
		b := g.object(typ, validCls(typ), nil)
		body = b[:len(b)-1-g.r.Intn(len(b)/2)]
	case "trailing":
		body = g.object(typ, validCls(typ), nil) + g.pick("{}", "x", "]", " 1")
	case "deep":
		body = strings.Repeat("[", 200000)
	case "huge":
		body = `{"task_id":"` + strings.Repeat("a", 2<<20) + `"}`
	case "dupkeys":
		b := g.object(typ, validCls(typ), expect)
		body = `{"task_id":"bogus",` + b[1:]
	case "whitespace":
		b := g.object(typ, validCls(typ), expect)
		body = strings.Repeat(" \n\t\r", 1000) + strings.ReplaceAll(b, ",", " ,\n ") + strings.Repeat("\n", 1000)
	}
	return append(tag(typeTag[typ]), []byte(body)...), expect, typ
}

var (
	prevEnc  []byte
	prevCopy []byte
)

func decodeOne(g *gen, fr map[string]interface{}) vh.Event {
	ev := vh.Event{"a": "Decode", "frame": fr}
	data, expect, typ := g.frameBytes(fr)
	ev["len"] = len(data)
	type result struct {
		msg protocol.Message
		err error
		pan interface{}
	}
	ch := make(chan result, 1)
	t0 := time.Now()
	go func() {
		var res result
		defer func() {
			if r := recover(); r != nil {
				res.pan = r
			}
			ch <- res
		}()
		res.msg, res.err = protocol.DecodeMessage(data)
	}()
	var res result
	select {
	case res = <-ch:
	case <-time.After(10 * time.Second):
		ev["res"] = "hang"
		return ev
	}
	ev["ms"] = int(time.Since(t0) / time.Millisecond)
	switch {
	case res.pan != nil:
		ev["res"], ev["panic"] = "panic", fmt.Sprint(res.pan)
		return ev
	case res.err != nil:
		ev["res"], ev["err"] = "err", res.err.Error()
		if len(res.err.Error()) > 200 {
			ev["err"] = res.err.Error()[:200]
		}
		return ev
	}
	ev["res"] = "msg"
	// decoded values are what was put in
	fieldsok, note := true, ""
	enc, err := func() (b []byte, err error) {
		defer func() {
			if r := recover(); r != nil {
				err = fmt.Errorf("encode panicked: %v", r)
			}
		}()
		return protocol.EncodeMessage(res.msg)
	}()
	if err != nil {
		ev["rt"], ev["fieldsok"], ev["note"] = false, false, "re-encode: "+err.Error()
		return ev
	}
	if uint16(enc[0])<<8|uint16(enc[1]) != typeTag[typ] || uint16(res.msg.MsgType()) != typeTag[typ] {
		fieldsok, note = false, "type tag changed"
	}
	var got map[string]json.RawMessage
	if json.Unmarshal(enc[2:], &got) != nil {
		fieldsok, note = false, "re-encoded body is not a JSON object"
	}
	for name, exp := range expect {
		var a, b interface{}
		json.Unmarshal(got[name], &a)
		json.Unmarshal([]byte(exp), &b)
		if !reflect.DeepEqual(a, b) {
			fieldsok = false
			note = fmt.Sprintf("field %s: decoded %s, expected %s", name, trunc(string(got[name])), trunc(exp))
		}
	}
	if tid, ok := expect["task_id"]; ok && q(res.msg.ID().String()) != tid {
		fieldsok, note = false, "ID() differs from task_id"
	}
	// lossless: decode(encode(m)) encodes to the same bytes
	rt := true
	m2, err := protocol.DecodeMessage(enc)
	if err != nil {
		rt, note = false, "decode(encode(m)): "+err.Error()
	} else if enc2, err := protocol.EncodeMessage(m2); err != nil || !bytes.Equal(enc, enc2) {
		rt, note = false, "encode(decode(encode(m))) differs from encode(m)"
	}
	// an earlier encoding must not be disturbed by later encodes
	if prevEnc != nil && !bytes.Equal(prevEnc, prevCopy) {
		rt, note = false, "bytes returned by an earlier EncodeMessage were overwritten by a later one"
	}
	prevEnc, prevCopy = enc, append([]byte{}, enc...)
	ev["rt"], ev["fieldsok"] = rt, fieldsok
	if note != "" {
		ev["note"] = note
	}
	return ev
}

func trunc(s string) string {
	if len(s) > 80 {
		return s[:80] + "..."
	}
	return s
}

func run(sc vh.Scenario, dir string, rec *vh.Rec) {
	g := newGen(sc.Seed)
	reps := 1
	if v, ok := sc.Opt["reps"].(float64); ok {
		reps = int(v)
	}
	for _, st := range sc.Steps {
		fr, _ := st["frame"].(map[string]interface{})
		for k := 0; k < reps; k++ {
			if st.A() == "Frame" {
				rec.Begin(vh.Event{"a": "Frame", "frame": fr})
				rec.Emit(frameOne(g, fr))
				continue
			}
			if st.A() == "KeepAlive" {
				rec.Begin(vh.Event{"a": "KeepAlive", "frame": fr})
				rec.Emit(keepAliveOne(g, fr))
				continue
			}
			rec.Begin(vh.Event{"a": "Decode", "frame": fr})
			rec.Emit(decodeOne(g, fr))
		}
	}
}

func main() {
	flag.Parse()
	// as a node does at start-up (the library's lazy initialisation on a first log call is not safe when two goroutines
	// log for the first time at once - two connection ends timing out in the same tick did)
	logging.Init(os.TempDir(), "codecdrv", "fatal", 1, true)
	vh.Main(run)
}
