package main

import (
	"context"
	"io"
	"net"
	"sync"
	"sync/atomic"
	"time"

	"massnet.org/mass/fractal/connection"

	"verifharness/vh"
)

// One tick of specs/KeepAlive.tla in real time; the interval is 2 ticks, the timeout 6, the horizon 16.
const kaTick = 100 * time.Millisecond

// darkProxy forwards between the two ends until it goes dark: then it keeps both sockets open and swallows
// everything (a path that has stopped working without a reset).
type darkProxy struct {
	l      net.Listener
	dark   int32
	wg     sync.WaitGroup
	mu     sync.Mutex
	cs     []net.Conn
	closed bool
}

func (p *darkProxy) pipe(dst, src net.Conn) {
	defer p.wg.Done()
	buf := make([]byte, 4096)
	for {
		n, err := src.Read(buf)
		if n > 0 && atomic.LoadInt32(&p.dark) == 0 {
			if _, e := dst.Write(buf[:n]); e != nil {
				break
			}
		}
		if err != nil {
			break
		}
	}
	// an end that closes is seen by the other end only while the path works
	if atomic.LoadInt32(&p.dark) == 0 {
		dst.Close()
	}
}

func (p *darkProxy) close() {
	p.l.Close()
	p.mu.Lock()
	p.closed = true // no pipe is added after this (Add never runs next to Wait)
	for _, c := range p.cs {
		c.Close()
	}
	p.mu.Unlock()
	p.wg.Wait()
}

// keepAliveOne runs one scenario of KeepAlive.tla on two real connection.Conn ends.
func keepAliveOne(g *gen, fr map[string]interface{}) vh.Event {
	ev := vh.Event{"a": "KeepAlive", "frame": fr, "ok": false, "stopA10": -1, "stopB10": -1}
	target, err := net.Listen("tcp", "127.0.0.1:0")
	if err != nil {
		ev["note"] = "listen: " + err.Error()
		return ev
	}
	defer target.Close()
	pl, err := net.Listen("tcp", "127.0.0.1:0")
	if err != nil {
		ev["note"] = "listen: " + err.Error()
		return ev
	}
	px := &darkProxy{l: pl}
	defer px.close()
	go func() {
		c, e := pl.Accept()
		if e != nil {
			return
		}
		u, e := net.Dial("tcp", target.Addr().String())
		if e != nil {
			c.Close()
			return
		}
		px.mu.Lock()
		if px.closed {
			px.mu.Unlock()
			c.Close()
			u.Close()
			return
		}
		px.cs = append(px.cs, c, u)
		px.wg.Add(2)
		px.mu.Unlock()
		go px.pipe(u, c)
		go px.pipe(c, u)
	}()
	acc := make(chan net.Conn, 1)
	go func() {
		c, e := target.Accept()
		if e == nil {
			acc <- c
		}
	}()
	ival := func(mode interface{}) time.Duration {
		if mode == "active" {
			return 2 * kaTick
		}
		return 0
	}
	a, cancelA, err := connection.NewConn(connection.DialAddress(pl.Addr().String()), connection.KeepaliveInterval(ival(fr["modeA"])), connection.KeepaliveTimeout(6*kaTick))
	if err != nil {
		ev["note"] = "NewConn A: " + err.Error()
		return ev
	}
	var srv net.Conn
	select {
	case srv = <-acc:
	case <-time.After(6 * time.Second):
		cancelA()
		ev["note"] = "accept timeout"
		return ev
	}
	b, cancelB, err := connection.NewConn(connection.WithNetConn(srv), connection.KeepaliveInterval(ival(fr["modeB"])), connection.KeepaliveTimeout(6*kaTick))
	if err != nil {
		cancelA()
		ev["note"] = "NewConn B: " + err.Error()
		return ev
	}
	t0 := time.Now()
	ctx, stopAll := context.WithCancel(context.Background())
	defer stopAll()
	// did this process keep time?  A goroutine that sleeps 5 ms at a time records by how much it overslept at worst:
	// on a machine that is too busy to schedule it, stop times say nothing about the code under test
	var late int64
	noteLate := func(due time.Time) {
		// the driver's own scheduled events (data sends, the path going dark) count too
		if d := int64(time.Since(due) / time.Millisecond); d > atomic.LoadInt64(&late) {
			atomic.StoreInt64(&late, d)
		}
	}
	go func() {
		for ctx.Err() == nil {
			a := time.Now()
			time.Sleep(5 * time.Millisecond)
			if d := int64(time.Since(a)/time.Millisecond) - 5; d > atomic.LoadInt64(&late) {
				atomic.StoreInt64(&late, d)
			}
		}
	}()
	// readers: whatever arrives is taken off the connection
	for _, c := range []*connection.Conn{a, b} {
		go func(c *connection.Conn) {
			for {
				if _, e := c.Read(ctx); e != nil {
					return
				}
			}
		}(c)
	}
	// the data plan
	payload := make([]byte, 64)
	g.r.Read(payload)
	go func() {
		for t := 2; t <= 16; t += 2 {
			select {
			case <-ctx.Done():
				return
			case <-time.After(time.Until(t0.Add(time.Duration(t) * kaTick))):
			}
			noteLate(t0.Add(time.Duration(t) * kaTick))
			sctx, c := context.WithTimeout(ctx, kaTick)
			switch fr["data"] {
			case "AB":
				a.Send(sctx, payload)
			case "BA":
				b.Send(sctx, payload)
			case "ABearly":
				if t <= 6 {
					a.Send(sctx, payload)
				}
			}
			c()
		}
	}()
	// the path goes dark half a tick after the events of tick `hole`
	if h := int(fr["hole"].(float64)); h > 0 {
		go func() {
			select {
			case <-ctx.Done():
			case <-time.After(time.Until(t0.Add(time.Duration(h)*kaTick + kaTick/2))):
				atomic.StoreInt32(&px.dark, 1)
				noteLate(t0.Add(time.Duration(h)*kaTick + kaTick/2))
			}
		}()
	}
	stopA, stopB := -1, -1
	end := t0.Add(16*kaTick + 3*kaTick/10)
	for time.Now().Before(end) {
		el := int(time.Since(t0) / (kaTick / 10))
		if stopA < 0 && a.Stopped() {
			stopA = el
		}
		if stopB < 0 && b.Stopped() {
			stopB = el
		}
		time.Sleep(5 * time.Millisecond)
	}
	stopAll()
	// whatever is still up must stop promptly when told to
	prompt := within2(2*time.Second, cancelA) && within2(2*time.Second, cancelB)
	ev["stopA10"], ev["stopB10"], ev["ok"] = stopA, stopB, prompt
	ev["late_ms"] = int(atomic.LoadInt64(&late))
	return ev
}

func within2(d time.Duration, f func()) bool {
	done := make(chan struct{})
	go func() { f(); close(done) }()
	select {
	case <-done:
		return true
	case <-time.After(d):
		return false
	}
}

var _ = io.EOF
