// capdrv replays capacity-configuration scenarios (specs/Capacity.tla) and plot-directory scenarios
// (specs/KeeperIndex.tla) against the real space keeper with the real massdb.v1 backend (plot files are created
// header-only, 4 KiB each) and a scripted wallet that persists across keeper restarts within a scenario.
package main

import (
	"crypto/sha256"
	"context"
	"encoding/hex"
	"flag"
	"fmt"
	"io/ioutil"
	"os"
	"path/filepath"
	"regexp"
	"sort"
	"strconv"
	"strings"
	"sync"

	"github.com/massnetorg/mass-core/massutil"
	"github.com/massnetorg/mass-core/poc"
	"github.com/massnetorg/mass-core/poc/pocutil"
	"github.com/massnetorg/mass-core/pocec"
	"github.com/massnetorg/mass-core/wire"
	"github.com/shirou/gopsutil/disk"

	"massnet.org/mass/api"
	pb "massnet.org/mass/api/proto"
	"massnet.org/mass/config"
	"massnet.org/mass/mining"
	"massnet.org/mass/poc/engine"
	"massnet.org/mass/poc/engine/massdb"
	massdb_v1 "massnet.org/mass/poc/engine/massdb/massdb.v1"
	"massnet.org/mass/poc/engine/spacekeeper/capacity"
	wdb "massnet.org/mass/poc/wallet/db"
	_ "massnet.org/mass/poc/wallet/db/ldb"
	"massnet.org/mass/poc/wallet/keystore"

	"verifharness/vh"
)

var _ = massdb_v1.TypeMassDBV1

type fakeWallet struct {
	mu   sync.Mutex
	keys []*pocec.PrivateKey
	rng  interface{ Read([]byte) (int, error) }
}

func (w *fakeWallet) GenerateNewPublicKey() (*pocec.PublicKey, uint32, error) {
	w.mu.Lock()
	defer w.mu.Unlock()
	b := make([]byte, 32)
	w.rng.Read(b)
	b[0] |= 1
	k, _ := pocec.PrivKeyFromBytes(pocec.S256(), b)
	w.keys = append(w.keys, k)
	return k.PubKey(), uint32(len(w.keys) - 1), nil
}
func (w *fakeWallet) GetPublicKeyOrdinal(pk *pocec.PublicKey) (uint32, bool) {
	w.mu.Lock()
	defer w.mu.Unlock()
	for i, k := range w.keys {
		if k.PubKey().IsEqual(pk) {
			return uint32(i), true
		}
	}
	return 0, false
}
func (w *fakeWallet) SignMessage(pk *pocec.PublicKey, hash []byte) (*pocec.Signature, error) {
	return nil, fmt.Errorf("not needed")
}
func (w *fakeWallet) Unlock([]byte) error { return nil }
func (w *fakeWallet) Lock()               {}
func (w *fakeWallet) IsLocked() bool      { return false }

const unit = 8 << 20

// the wallet the keeper is given: the scripted one, or (opt realwallet) the real keystore manager on a real store
type walletI interface {
	capacity.PoCWallet
}

type realWallet struct {
	*keystore.KeystoreManagerForPoC
	store wdb.DB
	dir   string
}

var fastScrypt = keystore.ScryptOptions{N: 16, R: 8, P: 1}
var rwPub, rwPriv = []byte("publicpass1"), []byte("privatepass1")

func openRealWallet(dir string, seed int64) (*realWallet, error) {
	keystore.DefaultScryptOptions = fastScrypt
	var store wdb.DB
	var err error
	fresh := false
	if _, e := os.Stat(dir); e == nil {
		store, err = wdb.OpenDB("leveldb", dir)
	} else {
		store, err = wdb.CreateDB("leveldb", dir)
		fresh = true
	}
	if err != nil {
		return nil, err
	}
	m, err := keystore.NewKeystoreManagerForPoC(store, rwPub, config.ChainParams)
	if err != nil {
		store.Close()
		return nil, err
	}
	if fresh {
		sd := make([]byte, 32)
		vh.Rng(seed).Read(sd)
		if _, err := m.NewKeystore(rwPriv, sd, "plots", config.ChainParams, &fastScrypt); err != nil {
			store.Close()
			return nil, err
		}
	}
	if err := m.Unlock(rwPriv); err != nil {
		store.Close()
		return nil, err
	}
	return &realWallet{KeystoreManagerForPoC: m, store: store, dir: dir}, nil
}

type drv struct {
	dirs  map[string]string // d1 -> path
	names map[string]string // path -> d1
	wal   walletI
	real  *realWallet
	sk    *capacity.SpaceKeeper
	rng   interface{ Intn(int) int }
}

func (d *drv) newKeeper() error {
	paths := []string{}
	for _, n := range []string{"d1", "d2"} {
		paths = append(paths, d.dirs[n])
	}
	ski, err := capacity.NewSpaceKeeperV1(&config.Config{Miner: &config.Miner{ProofDir: paths}}, d.wal)
	if err != nil {
		return err
	}
	d.sk = ski.(*capacity.SpaceKeeper)
	return nil
}

type spaceRec struct {
	O     int    `json:"o"`
	BL    int    `json:"bl"`
	D     string `json:"d"`
	State string `json:"state,omitempty"`
}

func (d *drv) ord(pk *pocec.PublicKey) int {
	o, ok := d.wal.GetPublicKeyOrdinal(pk)
	if !ok {
		return -1
	}
	return int(o)
}

var reB = regexp.MustCompile(`^(\d+)_([0-9a-fA-F]{66})_(\d{2})\.massdb$`)
var reA = regexp.MustCompile(`^(\d+)_([0-9a-fA-F]{66})_(\d{2})_a\.massdb$`)

// project: selection (public queries), index (verif snapshot + by-dir listing), files on disk
func (d *drv) project(ev vh.Event) {
	sel := []spaceRec{}
	infos, _ := d.sk.WorkSpaceInfos(engine.SFAll)
	dirOf := map[string]string{}
	dl, res, _ := d.sk.WorkSpaceInfosByDirs()
	for i, dir := range dl {
		for _, in := range res[i] {
			dirOf[in.SpaceID] = d.names[dir]
		}
	}
	for _, in := range infos {
		sel = append(sel, spaceRec{O: int(in.Ordinal), BL: in.BitLength, D: dirOf[in.SpaceID], State: in.State.String()})
	}
	sort.Slice(sel, func(i, j int) bool { return sel[i].O < sel[j].O })
	snap := capacity.VerifSnap(d.sk, false)
	idx := []map[string]interface{}{}
	for sid := range snap.InAll {
		parts := strings.Split(sid, "-")
		bl, _ := strconv.Atoi(parts[len(parts)-1])
		raw, _ := hex.DecodeString(parts[0])
		o := -1
		if pk, err := pocec.ParsePubKey(raw, pocec.S256()); err == nil {
			o = d.ord(pk)
		}
		idx = append(idx, map[string]interface{}{"o": o, "bl": bl, "using": snap.Using[sid]})
	}
	sort.Slice(idx, func(i, j int) bool { return idx[i]["o"].(int) < idx[j]["o"].(int) })
	ev["idx"] = idx
	files := []map[string]interface{}{}
	for _, n := range []string{"d1", "d2"} {
		fis, _ := ioutil.ReadDir(d.dirs[n])
		seenA, seenB := map[string]bool{}, map[string]spaceRec{}
		other := []string{}
		for _, fi := range fis {
			if m := reB.FindStringSubmatch(fi.Name()); m != nil {
				o, _ := strconv.Atoi(m[1])
				bl, _ := strconv.Atoi(m[3])
				seenB[m[1]+"_"+m[2]+"_"+m[3]] = spaceRec{O: o, BL: bl, D: n}
			} else if m := reA.FindStringSubmatch(fi.Name()); m != nil {
				seenA[m[1]+"_"+m[2]+"_"+m[3]] = true
			} else {
				other = append(other, fi.Name())
			}
		}
		for k, r := range seenB {
			files = append(files, map[string]interface{}{"o": r.O, "bl": r.BL, "d": r.D, "a": seenA[k]})
			delete(seenA, k)
		}
		for k := range seenA {
			other = append(other, "orphan-a:"+k)
		}
		if len(other) > 0 {
			ev["otherfiles_"+n] = other
		}
	}
	sort.Slice(files, func(i, j int) bool { return files[i]["o"].(int) < files[j]["o"].(int) })
	ev["files"] = files
	for i := range sel {
		where := ""
		for _, f := range files {
			if f["o"].(int) == sel[i].O && f["bl"].(int) == sel[i].BL {
				where = f["d"].(string)
			}
		}
		if sel[i].D != "" && where != sel[i].D {
			sel[i].D = "?" + sel[i].D + "/" + where
		} else {
			sel[i].D = where
		}
	}
	ev["sel"] = sel
	if d.real != nil {
		// C05 / C06 through the keeper: every selected space signs under the key its files are named after
		signok, bad := true, []string{}
		digest := sha256.Sum256([]byte("capdrv"))
		for _, in := range infos {
			sig, err := d.sk.SignHash(in.SpaceID, digest)
			// the chain verifies a header signature over HashH(PoC hash) (wire.BlockHeader.VerifySig)
			mh := wire.HashH(digest[:])
			if err != nil || sig == nil || !sig.Verify(mh[:], in.PublicKey) {
				signok = false
				bad = append(bad, fmt.Sprintf("%d: %v", in.Ordinal, err))
			}
		}
		ev["signok"] = signok
		if !signok {
			ev["signbad"] = bad
		}
	}
}

// server: the API server over the current keeper and the real wallet
func (d *drv) server() *api.Server {
	return api.VerifServer(okMiner{mining.NewMockedPoCMiner()}, d.real.KeystoreManagerForPoC, mining.NewConfigurableSpaceKeeperV1(d.sk))
}

// a miner that accepts its payout addresses (the mocked one of package mining refuses them)
type okMiner struct{ *mining.MockedPoCMiner }

func (okMiner) SetPayoutAddresses([]massutil.Address) error { return nil }

func payoutAddr() string {
	a, err := massutil.NewAddressWitnessScriptHash(make([]byte, 32), config.ChainParams)
	if err != nil {
		return ""
	}
	return a.EncodeAddress()
}

func errRes(err error) string {
	if err != nil {
		return "err"
	}
	return "ok"
}

// mibOf turns a target in half units of 8 MiB into MiB: an odd number is a size strictly between two multiples
func (d *drv) mibOf(h int) uint64 {
	if h < 0 {
		return 0
	}
	if h%2 == 0 {
		return uint64(h/2) * 8
	}
	return uint64((h-1)/2)*8 + uint64(1+d.rng.Intn(7))
}

// ------------------------------------------------------------------ start-up index scenarios (KeeperIndex.tla)

type crafted struct {
	z      pocutil.PoCValue
	x, xp  pocutil.PoCValue
	chall  pocutil.Hash
}

var craftCache = map[string]*crafted{}

// craft finds one genuine proof (x, x') of bit length bl for public key pk: P(x) = ~P(x'), stored at z = F(x, x'),
// and a challenge whose low bits are z
func craft(pk *pocec.PublicKey, bl int) *crafted {
	key := fmt.Sprintf("%x/%d", pk.SerializeCompressed(), bl)
	if c, ok := craftCache[key]; ok {
		return c
	}
	pkh := pocutil.PubKeyHash(pk)
	seen := map[pocutil.PoCValue]pocutil.PoCValue{}
	var c *crafted
	for x := pocutil.PoCValue(1); x < 1<<uint(bl); x++ {
		y := pocutil.P(x, bl, pkh)
		if o, ok := seen[pocutil.FlipValue(y, bl)]; ok {
			z := pocutil.F(o, x, bl, pkh)
			var ch pocutil.Hash
			for i := 0; i < 8; i++ {
				ch[i] = byte(uint64(z) >> (8 * uint(i)))
			}
			ch[31] = 0x5a
			c = &crafted{z: z, x: o, xp: x, chall: ch}
			break
		}
		seen[y] = x
	}
	craftCache[key] = c
	return c
}

func keyBytes(pk *pocec.PublicKey) string { return hex.EncodeToString(pk.SerializeCompressed()) }

// materialise writes the plot files an abstract file stands for and returns the names it wrote
func (d *drv) materialise(f map[string]interface{}, keys map[string]*pocec.PrivateKey) error {
	key := keys[f["key"].(string)]
	pk := key.PubKey()
	bl := int(f["bl"].(float64))
	dir := d.dirs[f["d"].(string)]
	ord := map[string]int{"k0": 0, "k1": 1, "k2": 2, "kf": 5}[f["key"].(string)]
	if ok, _ := f["ordOK"].(bool); !ok {
		ord += 3
	}
	// the header key / bit length
	hk, hbl := pk, bl
	switch f["hdr"] {
	case "otherOwnedKey":
		hk = keys[map[string]string{"k0": "k1", "k1": "k2", "k2": "k0", "kf": "k0"}[f["key"].(string)]].PubKey()
	case "foreignKey":
		hk = keys["kf2"].PubKey()
	case "otherBL":
		hbl = 50 - bl
	}
	// build a genuine pair for the header key in a scratch directory, then move it under the wanted name
	tmp := filepath.Join(dir, fmt.Sprintf(".build-%d", d.rng.Intn(1<<30)))
	os.MkdirAll(tmp, 0o755)
	defer os.RemoveAll(tmp)
	if _, err := massdb_v1.CreateDB(tmp, int64(ord), hk, hbl); err != nil {
		return err
	}
	hexk := keyBytes(hk)
	srcA := filepath.Join(tmp, fmt.Sprintf("%d_%s_%d_a.massdb", ord, hexk, hbl))
	srcB := filepath.Join(tmp, fmt.Sprintf("%d_%s_%d.massdb", ord, hexk, hbl))
	patch := func(path string, off int64, b []byte) {
		if fh, err := os.OpenFile(path, os.O_RDWR, 0o644); err == nil {
			fh.WriteAt(b, off)
			fh.Close()
		}
	}
	plotted := f["prog"] == "plotted"
	if f["prog"] == "preplotted" {
		// a plot stopped between its passes: table A's checkpoint is final, table B has a quarter of its checkpoint
		var ck [8]byte
		v := uint64(1) << uint(hbl)
		for i := 0; i < 8; i++ {
			ck[i] = byte(v >> (8 * uint(i)))
		}
		patch(srcA, 42, ck[:])
		v = (uint64(1) << uint(hbl-1)) / 4
		for i := 0; i < 8; i++ {
			ck[i] = byte(v >> (8 * uint(i)))
		}
		patch(srcB, 42, ck[:])
	}
	if plotted {
		// one genuine record and a final checkpoint
		if c := craft(hk, hbl); c != nil {
			rs := pocutil.RecordSize(hbl)
			patch(srcB, 4096+int64(c.z)*int64(rs)*2, append(pocutil.PoCValue2Bytes(c.x, hbl), pocutil.PoCValue2Bytes(c.xp, hbl)...))
		}
		var ck [8]byte
		v := uint64(1) << uint(hbl-1)
		for i := 0; i < 8; i++ {
			ck[i] = byte(v >> (8 * uint(i)))
		}
		patch(srcB, 42, ck[:])
	}
	switch f["hdr"] {
	case "badCode":
		patch(srcB, 0, []byte{0xde, 0xad})
	case "badVersion":
		patch(srcB, 32, []byte{9})
	case "shortHeader":
		os.Truncate(srcB, 1000+int64(d.rng.Intn(3000)))
	case "typeA":
		patch(srcB, 41, []byte{1}) // MapTypeHashMapA
	case "badPkHash":
		patch(srcB, 50, []byte{0xff, 0xee, 0xdd})
	}
	nameKey := keyBytes(pk)
	legacy, _ := f["legacy"].(bool)
	var dstA, dstB string
	if legacy {
		// legacy format <key>-<bl>-A|B.massdb (lower-case hex, as hex.EncodeToString writes it)
		dstA = filepath.Join(dir, fmt.Sprintf("%s-%d-A.massdb", nameKey, bl))
		dstB = filepath.Join(dir, fmt.Sprintf("%s-%d-B.massdb", nameKey, bl))
	} else {
		dstA = filepath.Join(dir, fmt.Sprintf("%d_%s_%d_a.massdb", ord, nameKey, bl))
		dstB = filepath.Join(dir, fmt.Sprintf("%d_%s_%d.massdb", ord, nameKey, bl))
	}
	if err := os.Rename(srcB, dstB); err != nil {
		return err
	}
	if hasA, _ := f["hasA"].(bool); hasA {
		os.Rename(srcA, dstA)
	}
	return nil
}

type fstat struct {
	size int64
	head string
}

func listing(dirs map[string]string) map[string]fstat {
	out := map[string]fstat{}
	for n, p := range dirs {
		fis, _ := ioutil.ReadDir(p)
		for _, fi := range fis {
			if fi.IsDir() {
				continue
			}
			b := make([]byte, 4096)
			fh, err := os.Open(filepath.Join(p, fi.Name()))
			k := 0
			if err == nil {
				k, _ = fh.Read(b)
				fh.Close()
			}
			out[n+"/"+strings.ToLower(fi.Name())] = fstat{fi.Size(), hex.EncodeToString(b[:k])}
		}
	}
	return out
}

func runIndex(sc vh.Scenario, dir string, rec *vh.Rec) {
	rng := vh.Rng(sc.Seed)
	fw := &fakeWallet{rng: rng}
	d := &drv{dirs: map[string]string{}, names: map[string]string{}, wal: fw, rng: rng}
	for _, n := range []string{"d1", "d2"} {
		p, _ := filepath.Abs(filepath.Join(dir, n))
		os.MkdirAll(p, 0o755)
		d.dirs[n], d.names[p] = p, n
	}
	keys := map[string]*pocec.PrivateKey{}
	for _, k := range []string{"k0", "k1", "k2"} {
		fw.GenerateNewPublicKey()
		keys[k] = fw.keys[len(fw.keys)-1]
	}
	for _, k := range []string{"kf", "kf2"} {
		b := make([]byte, 32)
		rng.Read(b)
		keys[k], _ = pocec.PrivKeyFromBytes(pocec.S256(), b)
	}
	files := []interface{}{}
	for _, st := range sc.Steps {
		files = append(files, map[string]interface{}(st))
	}
	ev := vh.Event{"a": "Index", "files": files}
	rec.Begin(ev)
	for _, f := range files {
		if err := d.materialise(f.(map[string]interface{}), keys); err != nil {
			rec.Dead, rec.Note = true, "materialise: "+err.Error()
			return
		}
	}
	before := listing(d.dirs)
	if err := d.newKeeper(); err != nil {
		ev["res"] = "err"
		ev["err"] = err.Error()
		rec.Emit(ev)
		return
	}
	ev["res"] = "ok"
	// legacy names are renamed to the current format: compare by (dir, lower-case name) after mapping legacy names
	after := listing(d.dirs)
	lost, altered := []string{}, []string{}
	legacyRe := regexp.MustCompile(`^(d\d)/([0-9a-f]{66})-(\d{2})-([ab])\.massdb$`)
	for n, st := range before {
		cur, ok := after[n]
		if !ok {
			if m := legacyRe.FindStringSubmatch(n); m != nil {
				// renamed: <ordinal>_<key>_<bl>[_a].massdb in the same directory
				found := false
				for n2, st2 := range after {
					if strings.HasPrefix(n2, m[1]+"/") && strings.Contains(n2, "_"+m[2]+"_"+m[3]) && (strings.HasSuffix(n2, "_a.massdb") == (m[4] == "a")) {
						if _, was := before[n2]; !was || true {
							if st2.size == st.size && st2.head == st.head {
								found = true
							}
						}
					}
				}
				if found {
					continue
				}
			}
			lost = append(lost, n)
			continue
		}
		if cur != st {
			altered = append(altered, n)
		}
	}
	sort.Strings(lost)
	sort.Strings(altered)
	ev["lost"], ev["altered"] = lost, altered
	// what was indexed
	snap := capacity.VerifSnap(d.sk, false)
	// configure every indexed space and start the keeper so that proofs can be asked for
	d.sk.ConfigureByFlags(engine.SFAll, false, false)
	infos, _ := d.sk.WorkSpaceInfos(engine.SFAll)
	indexed := []map[string]interface{}{}
	nameOf := func(pk *pocec.PublicKey) string {
		for n, k := range keys {
			if k.PubKey().IsEqual(pk) {
				return n
			}
		}
		return "?"
	}
	for _, in := range infos {
		indexed = append(indexed, map[string]interface{}{"key": nameOf(in.PublicKey), "bl": in.BitLength, "state": in.State.String(), "ordinal": int(in.Ordinal)})
	}
	if len(infos) != len(snap.InAll) {
		ev["res"] = fmt.Sprintf("index has %d entries, %d listed", len(snap.InAll), len(infos))
	}
	sort.Slice(indexed, func(i, j int) bool {
		return fmt.Sprint(indexed[i]["key"], indexed[i]["bl"]) < fmt.Sprint(indexed[j]["key"], indexed[j]["bl"])
	})
	ev["indexed"] = indexed
	served := []map[string]interface{}{}
	servedValid := true
	d.sk.ActOnWorkSpaces(engine.SFReady, engine.Mine)
	if err := d.sk.Start(); err == nil {
		for _, in := range infos {
			// ask with the challenge crafted for every key that may have written this file
			for kn, k := range keys {
				c := craft(k.PubKey(), in.BitLength)
				if c == nil {
					continue
				}
				wp, err := d.sk.GetProof(context.Background(), in.SpaceID, c.chall, false)
				if err == nil && wp != nil && wp.Error == nil && wp.Proof != nil {
					served = append(served, map[string]interface{}{"key": nameOf(in.PublicKey), "bl": in.BitLength, "craftedFor": kn})
					if poc.VerifyProof(wp.Proof, pocutil.PubKeyHash(in.PublicKey), c.chall, false) != nil {
						servedValid = false
					}
				}
			}
		}
		d.sk.Stop()
	}
	ev["served"], ev["servedvalid"] = served, servedValid
	// C11: delete erases exactly that space's files and nothing else.  Every indexed space is deleted in turn (mining
	// ones are stopped first); afterwards no file named after a deleted space may be left (whatever progress the
	// space had, e.g. a plotted table with its table A still there as after a crash just before the final unlink),
	// and every other file must still be there, unaltered.
	d.sk.ActOnWorkSpaces(engine.SFMining, engine.Stop)
	preDel := listing(d.dirs)
	deleted, refused := []string{}, []string{}
	// the files of a space are those in the directory it was indexed from (a second pair of the same name in another
	// directory is not the space's: it must stay)
	dirOfSpace := map[string]string{}
	if dl, res, err := d.sk.WorkSpaceInfosByDirs(); err == nil {
		for i, dir := range dl {
			for _, in := range res[i] {
				dirOfSpace[in.SpaceID] = d.names[dir]
			}
		}
	}
	for _, in := range infos {
		pfx := dirOfSpace[in.SpaceID] + "/" + strings.ToLower(fmt.Sprintf("%d_%x_%d", in.Ordinal, in.PublicKey.SerializeCompressed(), in.BitLength))
		if err := d.sk.ActOnWorkSpace(in.SpaceID, engine.Delete); err != nil {
			refused = append(refused, nameOf(in.PublicKey))
			continue
		}
		deleted = append(deleted, pfx)
	}
	postDel := listing(d.dirs)
	undeleted, collateral := []string{}, []string{}
	mine := func(n string) bool {
		base := strings.ToLower(n)
		for _, pfx := range deleted {
			if strings.HasPrefix(base, pfx+".") || strings.HasPrefix(base, pfx+"_a.") {
				return true
			}
		}
		return false
	}
	for n := range postDel {
		if mine(n) {
			undeleted = append(undeleted, n[:strings.Index(n, "/")+1]+"..."+n[len(n)-16:])
		}
	}
	for n, st := range preDel {
		if !mine(n) {
			if cur, ok := postDel[n]; !ok || cur != st {
				collateral = append(collateral, n)
			}
		}
	}
	sort.Strings(undeleted)
	sort.Strings(collateral)
	ev["undeleted"], ev["collateral"], ev["refused"] = undeleted, collateral, refused
	rec.Emit(ev)
}

func run(sc vh.Scenario, dir string, rec *vh.Rec) {
	if k, _ := sc.Opt["kind"].(string); k == "index" {
		runIndex(sc, dir, rec)
		return
	}
	rng := vh.Rng(sc.Seed)
	d := &drv{dirs: map[string]string{}, names: map[string]string{}, wal: &fakeWallet{rng: rng}, rng: rng}
	if rw, _ := sc.Opt["realwallet"].(bool); rw {
		w, err := openRealWallet(filepath.Join(dir, "wallet"), sc.Seed)
		if err != nil {
			rec.Dead, rec.Note = true, "real wallet: "+err.Error()
			return
		}
		d.wal, d.real = w, w
		defer func() { d.real.store.Close() }()
	}
	for _, n := range []string{"d1", "d2"} {
		p, _ := filepath.Abs(filepath.Join(dir, n))
		os.MkdirAll(p, 0o755)
		d.dirs[n], d.names[p] = p, n
	}
	if err := d.newKeeper(); err != nil {
		rec.Dead, rec.Note = true, "NewSpaceKeeperV1: "+err.Error()
		return
	}
	for i, st := range sc.Steps {
		ev := vh.Event{"step": i + 1}
		for k, v := range st {
			ev[k] = v
		}
		rec.Begin(ev)
		func() {
			defer func() {
				if p := recover(); p != nil {
					ev["res"] = "panic"
					ev["panic"] = fmt.Sprint(p)
				}
			}()
			switch st.A() {
			case "BySize", "TooBig", "Wrap":
				// what the API's ConfigureCapacity does: capacity in MiB, admission check, then the keeper
				mib := d.mibOf(st.Int("t"))
				if st.A() == "TooBig" {
					u, _ := disk.Usage(d.dirs["d1"])
					mib = u.Free/(1<<20) + uint64(1+rng.Intn(1<<10))
				}
				if st.A() == "Wrap" {
					mib += 1 << 44 // the product with 2^20 wraps around
				}
				ev["mib"] = fmt.Sprint(mib)
				if d.real != nil {
					// the real gRPC handler (real wallet behind it): passphrase check, payout addresses, admission, keeper
					_, err := d.server().ConfigureCapacity(context.Background(), &pb.ConfigureSpaceKeeperRequest{Capacity: mib, PayoutAddresses: []string{payoutAddr()}, Passphrase: string(rwPriv)})
					ev["res"], ev["stage"] = errRes(err), "handler"
					if err != nil {
						ev["err"] = err.Error()
					}
					return
				}
				if err := api.VerifCheckMinerDiskSize(mining.NewConfigurableSpaceKeeperV1(d.sk), mib); err != nil {
					ev["res"], ev["stage"], ev["err"] = "err", "api", err.Error()
					return
				}
				_, err := d.sk.ConfigureBySize(mib*(1<<20), false, false)
				ev["res"], ev["stage"] = errRes(err), "keeper"
				if err != nil {
					ev["err"] = err.Error()
				}
			case "ByPath":
				// what the API's ConfigureCapacityByDirs does
				ds := vh.StrSeq(st["dirs"])
				paths := []string{}
				sizes := []uint64{}
				tsv, _ := st["ts"].([]interface{})
				csk := mining.NewConfigurableSpaceKeeperV1(d.sk)
				if d.real != nil {
					allocs := []*pb.ConfigureSpaceKeeperByDirsRequest_Allocation{}
					for k, n := range ds {
						h := 0
						if k < len(tsv) {
							h = int(tsv[k].(float64))
						}
						allocs = append(allocs, &pb.ConfigureSpaceKeeperByDirsRequest_Allocation{Directory: d.dirs[n], Capacity: d.mibOf(h)})
					}
					_, err := d.server().ConfigureCapacityByDirs(context.Background(), &pb.ConfigureSpaceKeeperByDirsRequest{Allocations: allocs, PayoutAddresses: []string{payoutAddr()}, Passphrase: string(rwPriv)})
					ev["res"], ev["stage"] = errRes(err), "handler"
					if err != nil {
						ev["err"] = err.Error()
					}
					return
				}
				for k, n := range ds {
					h := 0
					if k < len(tsv) {
						h = int(tsv[k].(float64))
					}
					mib := d.mibOf(h)
					if err := api.VerifCheckMinerPathCapacity(csk, d.dirs[n], mib); err != nil {
						ev["res"], ev["stage"], ev["err"] = "err", "api", err.Error()
						return
					}
					paths = append(paths, d.dirs[n])
					sizes = append(sizes, mib*(1<<20))
				}
				_, err := csk.ConfigureByPath(paths, sizes, false, false)
				ev["res"], ev["stage"] = errRes(err), "keeper"
				if err != nil {
					ev["err"] = err.Error()
				}
			case "ByBL":
				cnt := map[int]int{}
				if m, ok := st["counts"].(map[string]interface{}); ok {
					for k, v := range m {
						bl, _ := strconv.Atoi(k)
						cnt[bl] = int(v.(float64))
					}
				}
				_, err := d.sk.ConfigureByBitLength(cnt, false, false)
				ev["res"] = errRes(err)
				if err != nil {
					ev["err"] = err.Error()
				}
			case "Remove", "Delete":
				infos, _ := d.sk.WorkSpaceInfos(engine.SFAll)
				if len(infos) == 0 {
					ev["res"] = "noop"
					return
				}
				sort.Slice(infos, func(i, j int) bool { return infos[i].Ordinal < infos[j].Ordinal })
				in := infos[st.Int("k")%len(infos)]
				ev["o"] = int(in.Ordinal)
				act := engine.Remove
				if st.A() == "Delete" {
					act = engine.Delete
				}
				ev["res"] = errRes(d.sk.ActOnWorkSpace(in.SpaceID, act))
			case "Restart":
				if d.real != nil {
					// the node restarts: the wallet is reopened from its store, the keeper is built on the new instance
					d.real.store.Close()
					w, err := openRealWallet(d.real.dir, sc.Seed)
					if err != nil {
						ev["res"], ev["walleterr"] = "err", err.Error()
						break
					}
					d.wal, d.real = w, w
				}
				ev["res"] = errRes(d.newKeeper())
			default:
				ev["res"] = "unknown-action"
			}
		}()
		d.project(ev)
		rec.Emit(ev)
	}
}

var _ = poc.ProofTypeDefault
var _ = pocutil.Hash{}
var _ = massdb.ErrDBDoesNotExist

func main() {
	flag.Parse()
	vh.Main(run)
}
