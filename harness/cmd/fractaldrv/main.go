// fractaldrv replays behaviours of specs/Fractal.tla against the real cluster-mining plumbing of package fractal:
// one LocalSuperior with a real CollectorPool listening on a loopback TCP port, relays that are real
// PersistentRemoteSuperiors dialled into the pool (so that at the superior each is a real RemoteCollector behind a
// real connection.Conn with its reader / writer pipelines), and scripted leaf collectors (the fractal.Collector
// interface) subscribed at the superior or at a relay.  Every step is a public call; after it the driver waits for
// the pipelines to drain (marker reports through the same connection lanes, probe collectors at the relays) and
// records what every leaf has been handed so far and what the task waiter read.
package main

import (
	"io"
	"bytes"
	"context"
	"crypto/sha256"
	"flag"
	"fmt"
	"math/big"
	"net"
	"os"
	"sort"
	"sync"
	"time"

	"github.com/google/uuid"
	"github.com/massnetorg/mass-core/logging"
	"github.com/massnetorg/mass-core/poc/chiapos"
	"github.com/massnetorg/mass-core/poc/pocutil"

	"massnet.org/mass/fractal"
	"massnet.org/mass/fractal/connection"
	"massnet.org/mass/fractal/protocol"
	engine_v2 "massnet.org/mass/poc/engine.v2"

	"verifharness/vh"
)

func nameUUID(kind, name string, seed int64) uuid.UUID {
	h := sha256.Sum256([]byte(fmt.Sprintf("%s/%s/%d", kind, name, seed)))
	var u uuid.UUID
	copy(u[:], h[:16])
	u[6] = (u[6] & 0x0f) | 0x40
	u[8] = (u[8] & 0x3f) | 0x80
	return u
}

// ---------------------------------------------------------------- message construction (deterministic in the name)

type keys struct {
	g1 []*chiapos.G1Element
	g2 []*chiapos.G2Element
}

func mkKeys() *keys {
	k := &keys{}
	scheme := chiapos.NewAugSchemeMPL()
	for i := 0; i < 4; i++ {
		sd := sha256.Sum256([]byte(fmt.Sprintf("key%d", i)))
		sk, err := scheme.KeyGen(sd[:])
		if err != nil {
			vh.Fatal("bls keygen: %v", err)
		}
		pk, err := sk.GetG1()
		if err != nil {
			vh.Fatal("bls g1: %v", err)
		}
		sig, err := scheme.Sign(sk, sd[:])
		if err != nil {
			vh.Fatal("bls sign: %v", err)
		}
		k.g1 = append(k.g1, pk)
		k.g2 = append(k.g2, sig)
	}
	return k
}

func hashOf(s string) pocutil.Hash { return pocutil.Hash(sha256.Sum256([]byte(s))) }

func pick(s string, n int) int { h := sha256.Sum256([]byte("pick" + s)); return int(h[0]) % n }

type world struct {
	seed int64
	k    *keys
}

func (w *world) taskMsg(t, kind string) protocol.Message {
	id := nameUUID("task", t, w.seed)
	if kind == "bcast" {
		return &protocol.RequestQualities{TaskID: id, Challenge: hashOf("ch" + t), ParentTarget: new(big.Int).SetBytes([]byte("target-" + t)),
			ParentSlot: uint64(1000 + pick(t, 100)), Height: uint64(7 + pick("h"+t, 50))}
	}
	return &protocol.RequestSignature{TaskID: id, Height: uint64(9 + pick(t, 50)), SpaceID: "space-" + t, Hash: hashOf("sig" + t)}
}

// reportMsg builds the report with payload p for task t; reports to quality tasks are quality reports (ordinary
// lane), reports to targeted tasks are signature reports (priority lane).  The size of the frame varies with p.
func (w *world) reportMsg(tid uuid.UUID, kind, p string) protocol.Message {
	if kind == "bcast" {
		n := 1 + pick("n"+p, 3)
		qs := make([]*protocol.Quality, 0, n)
		for i := 0; i < n; i++ {
			tag := fmt.Sprintf("%s#%d", p, i)
			ql := bytes.Repeat([]byte(tag), 1+pick("len"+tag, 5))
			qs = append(qs, &protocol.Quality{WorkSpaceQuality: &engine_v2.WorkSpaceQuality{
				SpaceID: "space-" + tag, PublicKey: w.k.g1[pick("a"+tag, 4)], PoolPublicKey: w.k.g1[pick("b"+tag, 4)], Index: uint32(pick("i"+tag, 200)),
				KSize: uint8(25 + pick("k"+tag, 8)), Quality: ql, PlotID: hashOf("plot" + tag)}, Slot: uint64(5000 + pick("s"+tag, 100))})
		}
		return &protocol.ReportQualities{TaskID: tid, Qualities: qs}
	}
	return &protocol.ReportSignature{TaskID: tid, SpaceID: "space-" + p, Hash: hashOf("rh" + p), Signature: w.k.g2[pick("g"+p, 4)]}
}

func enc(m protocol.Message) []byte {
	b, err := protocol.EncodeMessage(m)
	if err != nil {
		return []byte("unencodable: " + err.Error())
	}
	return b
}

// ---------------------------------------------------------------- scripted collectors

type leaf struct {
	name string
	id   uuid.UUID
	mu   sync.Mutex
	got  map[uuid.UUID]int
	bad  []string
	want func(protocol.Message) bool
	lastQ uuid.UUID     // the last quality task handed over (what a relay remembers for late subscribers)
	gate  chan struct{} // when set, the first ID() call parks here
	once sync.Once
	in   chan struct{}
}

func (l *leaf) ID() uuid.UUID {
	if l.gate != nil {
		l.once.Do(func() { close(l.in); <-l.gate })
	}
	return l.id
}
func (l *leaf) rec(m protocol.Message) error {
	l.mu.Lock()
	defer l.mu.Unlock()
	l.got[m.ID()]++
	if !l.want(m) {
		l.bad = append(l.bad, m.ID().String())
	}
	return nil
}
func (l *leaf) RequestQualities(_ context.Context, m *protocol.RequestQualities) error {
	l.mu.Lock()
	l.lastQ = m.TaskID
	l.mu.Unlock()
	return l.rec(m)
}
func (l *leaf) RequestProof(_ context.Context, m *protocol.RequestProof) error         { return l.rec(m) }
func (l *leaf) RequestSignature(_ context.Context, m *protocol.RequestSignature) error { return l.rec(m) }
func (l *leaf) count(id uuid.UUID) int {
	l.mu.Lock()
	defer l.mu.Unlock()
	return l.got[id]
}

type relay struct {
	name   string
	parent string // "S" or the relay whose pool this one dialled
	pool   *fractal.CollectorPool
	stopPl context.CancelFunc
	addr   string
	px     *proxy
	prs    *fractal.PersistentRemoteSuperior
	cancel context.CancelFunc
	probe  *leaf
	rcID   uuid.UUID
	cut    bool // the link to the parent is broken (Outage) and has not been restored yet
}

type drv struct {
	w       *world
	ctx     context.Context
	ls      *fractal.LocalSuperior
	pool    *fractal.CollectorPool
	stopPl  context.CancelFunc
	addr    string
	home    map[string]string
	rhome   map[string]string
	leaves  map[string]*leaf
	relays  map[string]*relay
	tasks   map[string]chan *fractal.CollectorMsg
	kinds   map[string]string
	msgs    map[uuid.UUID]protocol.Message
	tname   map[uuid.UUID]string
	helloID uuid.UUID
	hello   chan *fractal.CollectorMsg
	cur     string // the broadcast task the driver last added and has not removed (barrier bookkeeping only)
	srcName map[uuid.UUID]string
	mark    int
	autos   map[string]*autoLeaf
}

func freeAddr() string {
	l, err := net.Listen("tcp", "127.0.0.1:0")
	if err != nil {
		vh.Fatal("no loopback: %v", err)
	}
	a := l.Addr().String()
	l.Close()
	return a
}

func (d *drv) newLeaf(name string) *leaf {
	return &leaf{name: name, id: nameUUID("leaf", name, d.w.seed), got: map[uuid.UUID]int{}, want: d.expected}
}

// expected: a task message must arrive as it was submitted
func (d *drv) expected(m protocol.Message) bool {
	o, ok := d.msgs[m.ID()]
	return ok && bytes.Equal(enc(o), enc(m))
}

func within(dur time.Duration, f func()) bool {
	done := make(chan struct{})
	go func() { defer close(done); f() }()
	select {
	case <-done:
		return true
	case <-time.After(dur):
		return false
	}
}

func waitFor(dur time.Duration, cond func() bool) bool {
	end := time.Now().Add(dur)
	for {
		if cond() {
			return true
		}
		if time.Now().After(end) {
			return false
		}
		time.Sleep(500 * time.Microsecond)
	}
}

func (d *drv) start() error {
	d.ctx = context.Background()
	d.ls = fractal.NewLocalSuperior()
	var err error
	for try := 0; try < 5; try++ {
		d.addr = freeAddr()
		d.pool, d.stopPl, err = fractal.NewCollectorPool(d.ctx, d.ls, fractal.CollectorPoolListenAddress(d.addr))
		if err == nil {
			break
		}
	}
	if err != nil {
		return err
	}
	// the hello task: targeted at nobody; the driver uses its channel to learn a relay's collector id and as the
	// sink of marker reports
	d.helloID = nameUUID("task", "hello", d.w.seed)
	d.hello = d.ls.AddTask(d.ctx, nameUUID("leaf", "nobody", d.w.seed), &protocol.RequestSignature{TaskID: d.helloID, SpaceID: "hello", Hash: hashOf("hello")})
	return nil
}

// sync sends marker reports through relay r on both lanes and waits for them at the superior: everything r's
// collectors reported before has then been processed by the superior (each lane is FIFO end to end).
func (d *drv) sync(r *relay) bool {
	d.mark++
	tagQ, tagS := fmt.Sprintf("markq-%d", d.mark), fmt.Sprintf("marks-%d", d.mark)
	mq := &protocol.ReportQualities{TaskID: d.helloID, Qualities: []*protocol.Quality{{WorkSpaceQuality: &engine_v2.WorkSpaceQuality{
		SpaceID: tagQ, PublicKey: d.w.k.g1[0], PoolPublicKey: d.w.k.g1[1], Quality: []byte{1}, PlotID: hashOf("m")}}}}
	ms := &protocol.ReportSignature{TaskID: d.helloID, SpaceID: tagS, Hash: hashOf("m"), Signature: d.w.k.g2[0]}
	if err := r.prs.ReportQualities(d.ctx, r.probe.id, mq); err != nil {
		return false
	}
	if err := r.prs.ReportSignature(d.ctx, r.probe.id, ms); err != nil {
		return false
	}
	seen := 0
	deadline := time.After(3 * time.Second)
	for seen < 2 {
		select {
		case m := <-d.hello:
			if m == nil {
				return false
			}
			switch x := m.Msg.(type) {
			case *protocol.ReportQualities:
				if len(x.Qualities) == 1 && x.Qualities[0].SpaceID == tagQ {
					seen++
					r.rcID = m.CollectorID
				}
			case *protocol.ReportSignature:
				if x.SpaceID == tagS {
					seen++
					r.rcID = m.CollectorID
				}
			}
		case <-deadline:
			return false
		}
	}
	d.srcName[r.rcID] = d.rootOf(r.name)
	return true
}

// proxy: a TCP forwarder between a relay and the pool, so that the connection can be cut abruptly in the middle
type proxy struct {
	l     net.Listener
	mu    sync.Mutex
	conns []net.Conn
	down  bool // outage: connections are accepted and dropped at once, nothing reaches the target
}

func newProxy(target string) (*proxy, error) {
	l, err := net.Listen("tcp", "127.0.0.1:0")
	if err != nil {
		return nil, err
	}
	p := &proxy{l: l}
	go func() {
		for {
			c, err := l.Accept()
			if err != nil {
				return
			}
			p.mu.Lock()
			down := p.down
			p.mu.Unlock()
			if down {
				c.Close()
				continue
			}
			u, err := net.Dial("tcp", target)
			if err != nil {
				c.Close()
				continue
			}
			p.mu.Lock()
			p.conns = append(p.conns, c, u)
			p.mu.Unlock()
			go func() { io.Copy(u, c); u.Close(); c.Close() }()
			go func() { io.Copy(c, u); u.Close(); c.Close() }()
		}
	}()
	return p, nil
}

// cut resets every connection through the proxy but keeps accepting new ones (a network outage that ends)
func (p *proxy) cut() {
	p.mu.Lock()
	for _, c := range p.conns {
		if tc, ok := c.(*net.TCPConn); ok {
			tc.SetLinger(0)
		}
		c.Close()
	}
	p.conns = nil
	p.mu.Unlock()
}

// outage: cut, and every new connection is dropped until restore
func (p *proxy) outage() {
	p.mu.Lock()
	p.down = true
	p.mu.Unlock()
	p.cut()
}

func (p *proxy) restore() {
	p.mu.Lock()
	p.down = false
	p.mu.Unlock()
}

// sever cuts every connection through the proxy and refuses new ones
func (p *proxy) sever() {
	p.l.Close()
	p.mu.Lock()
	for _, c := range p.conns {
		if tc, ok := c.(*net.TCPConn); ok {
			tc.SetLinger(0) // reset, not an orderly close
		}
		c.Close()
	}
	p.mu.Unlock()
}

func (d *drv) parentOf(name string) string {
	if p, ok := d.rhome[name]; ok {
		return p
	}
	return "S"
}

func (d *drv) rootOf(node string) string {
	for d.parentOf(node) != "S" {
		node = d.parentOf(node)
	}
	return node
}

// poolOf: the collector pool a node's children dial
func (d *drv) poolOf(node string) (*fractal.CollectorPool, string) {
	if node == "S" {
		return d.pool, d.addr
	}
	if r := d.relays[node]; r != nil {
		return r.pool, r.addr
	}
	return nil, ""
}

// linkUp: every link from node up to the superior is up
func (d *drv) linkUp(node string) bool {
	for node != "S" {
		r := d.relays[node]
		if r == nil || r.cut {
			return false
		}
		node = r.parent
	}
	return true
}

// outage breaks relay name's link to its parent; the relay stays up and will dial again (through the proxy, which
// drops every attempt until recover)
func (d *drv) outage(name string) string {
	r := d.relays[name]
	if r == nil || r.cut {
		return "skip"
	}
	ppool, _ := d.poolOf(r.parent)
	if ppool == nil {
		return "skip"
	}
	before := ppool.Count()
	r.px.outage()
	r.cut = true
	if !waitFor(3*time.Second, func() bool { return ppool.Count() < before }) {
		return "poolkeeps-after-cut"
	}
	// the relay notices too: its reader fails, it stops and waits for its retry interval
	time.Sleep(20 * time.Millisecond)
	return "ok"
}

// recover lets the relay's next dial through and waits until it is a collector of its parent again and - where a
// path to the superior exists - until reports flow again
func (d *drv) recover(name string) string {
	r := d.relays[name]
	if r == nil || !r.cut {
		return "skip"
	}
	ppool, _ := d.poolOf(r.parent)
	if ppool == nil {
		return "skip"
	}
	// whatever was sent into the broken link has been refused by now
	time.Sleep(200 * time.Millisecond)
	var want uuid.UUID
	if r.parent == "S" {
		if d.cur != "" {
			want = nameUUID("task", d.cur, d.w.seed)
		}
	} else if pr := d.relays[r.parent]; pr != nil {
		pr.probe.mu.Lock()
		want = pr.probe.lastQ
		pr.probe.mu.Unlock()
	}
	had := 0
	if want != uuid.Nil {
		had = r.probe.count(want)
	}
	before := ppool.Count()
	r.px.restore()
	if !waitFor(fractal.PersistentRemoteSuperiorRetryInterval+10*time.Second, func() bool { return ppool.Count() > before }) {
		return "never-dialled-again"
	}
	r.cut = false
	if d.linkUp(name) {
		// the pool has the new connection before the relay has switched to it (Reborn installs the new reader and
		// writer after the dial returned): reports sent in between go to the old, closed writer and are refused
		synced := false
		for try := 0; try < 20 && !synced; try++ {
			if synced = d.sync(r); !synced {
				time.Sleep(200 * time.Millisecond)
			}
		}
		if !synced {
			return "nosync"
		}
		// relays below this one report through it: their reports now carry its new collector id
	}
	if want != uuid.Nil {
		if !waitFor(3*time.Second, func() bool { return r.probe.count(want) > had }) {
			return "nolatest"
		}
	} else {
		time.Sleep(300 * time.Millisecond)
	}
	return "ok"
}

func (d *drv) connect(name string) string {
	parent := d.parentOf(name)
	ppool, paddr := d.poolOf(parent)
	if ppool == nil {
		return "skip"
	}
	px, err := newProxy(paddr)
	if err != nil {
		return "err: " + err.Error()
	}
	pbefore := ppool.Count()
	prs, cancel, err := fractal.NewPersistentRemoteSuperior(d.ctx, connection.DialAddress(px.l.Addr().String()))
	if err != nil {
		return "err: " + err.Error()
	}
	r := &relay{name: name, parent: parent, px: px, prs: prs, cancel: cancel, probe: d.newLeaf("probe-" + name)}
	prs.Subscribe(d.ctx, r.probe)
	// like cmd fractal: the relay serves collectors of its own through a pool whose superior is its connection upstream
	for try := 0; try < 5; try++ {
		r.addr = freeAddr()
		r.pool, r.stopPl, err = fractal.NewCollectorPool(d.ctx, prs, fractal.CollectorPoolListenAddress(r.addr))
		if err == nil {
			break
		}
	}
	if err != nil {
		return "err: relay pool: " + err.Error()
	}
	d.relays[name] = r
	if !d.linkUp(name) {
		// a link further up is broken: no marker can travel; the parent's pool shows the new collector
		if !waitFor(3*time.Second, func() bool { return ppool.Count() > pbefore }) {
			return "pool-never-saw-it"
		}
	} else if !d.sync(r) {
		return "nosync"
	}
	// what the parent hands a newcomer: the superior's current quality task, a relay's last one
	var want uuid.UUID
	if parent == "S" {
		if d.cur != "" {
			want = nameUUID("task", d.cur, d.w.seed)
		}
	} else if pr := d.relays[parent]; pr != nil {
		pr.probe.mu.Lock()
		want = pr.probe.lastQ
		pr.probe.mu.Unlock()
	}
	if want != uuid.Nil {
		if !waitFor(3*time.Second, func() bool { return r.probe.count(want) > 0 }) {
			return "nolatest"
		}
	}
	return "ok"
}

func (d *drv) disconnect(name string, hard ...bool) string {
	r := d.relays[name]
	if r == nil {
		return "ok"
	}
	// everything that dialled this relay's pool goes first
	for q, cr := range d.relays {
		if cr.parent == name {
			if res := d.disconnect(q); res != "ok" {
				return "child-" + q + "-" + res
			}
		}
	}
	ppool, _ := d.poolOf(r.parent)
	if ppool == nil {
		ppool = d.pool
	}
	if len(hard) > 0 && hard[0] && !r.cut {
		// the connection is cut in the middle first; the pool must notice on its own, and stopping the relay (now in
		// its reconnect wait) must still return promptly
		before := ppool.Count()
		r.px.sever()
		if !waitFor(3*time.Second, func() bool { return ppool.Count() < before }) {
			return "poolkeeps-after-cut"
		}
	}
	defer r.px.sever()
	for c, a := range d.autos {
		if a.live && d.home[c] == name {
			if d.stopAuto(c) != "ok" {
				return "collector-stop-timeout"
			}
		}
	}
	if r.stopPl != nil && !within(3*time.Second, r.stopPl) {
		return "relay-pool-stop-timeout"
	}
	before := ppool.Count()
	if !within(3*time.Second, r.cancel) {
		return "timeout"
	}
	delete(d.relays, name)
	// the pool notices the lost connection, stops its collector and unsubscribes it
	if !(len(hard) > 0 && hard[0]) && !r.cut && !waitFor(3*time.Second, func() bool { return ppool.Count() < before }) {
		return "poolkeeps"
	}
	return "ok"
}

func (d *drv) superiorOf(c string) (fractal.Superior, *relay) {
	h := d.home[c]
	if h == "S" {
		return d.ls, nil
	}
	if r := d.relays[h]; r != nil {
		return r.prs, r
	}
	return nil, nil
}

func (d *drv) leafOf(c string) *leaf {
	l := d.leaves[c]
	if l == nil {
		l = d.newLeaf(c)
		d.leaves[c] = l
	}
	return l
}

func (d *drv) settle() {
	// direct hand-overs run on the superior's goroutine pool: wait until nothing changes for a moment
	last, stable := -1, 0
	for i := 0; i < 400 && stable < 6; i++ {
		n := 0
		for _, l := range d.leaves {
			l.mu.Lock()
			for _, c := range l.got {
				n += c
			}
			l.mu.Unlock()
		}
		for _, a := range d.autos {
			a.sk.mu.Lock()
			for _, c := range a.sk.got {
				n += c
			}
			a.sk.mu.Unlock()
		}
		if n == last {
			stable++
		} else {
			stable, last = 0, n
		}
		time.Sleep(time.Millisecond)
	}
}

func (d *drv) gotMap() map[string]interface{} {
	out := map[string]interface{}{}
	names := make([]string, 0)
	for n := range d.home {
		names = append(names, n)
	}
	sort.Strings(names)
	for _, n := range names {
		m := map[string]interface{}{}
		if a := d.autos[n]; a != nil {
			a.sk.mu.Lock()
			for t, c := range a.sk.got {
				m[t] = c
			}
			a.sk.mu.Unlock()
		}
		if l := d.leaves[n]; l != nil {
			l.mu.Lock()
			for id, c := range l.got {
				if t, ok := d.tname[id]; ok {
					m[t] = c
				} else {
					m["unknown"] = c
				}
			}
			if len(l.bad) > 0 {
				m["corrupt"] = len(l.bad)
			}
			l.mu.Unlock()
		}
		out[n] = m
	}
	return out
}

func (d *drv) addTask(t, kind, tg string) string {
	msg := d.w.taskMsg(t, kind)
	d.msgs[msg.ID()] = msg
	d.tname[msg.ID()] = t
	d.kinds[t] = kind
	target := uuid.Nil
	var via []*relay
	if kind == "bcast" {
		d.cur = t
		for _, r := range d.relays {
			if d.linkUp(r.name) {
				via = append(via, r)
			}
		}
	} else if r := d.relays[tg]; r != nil && r.parent == "S" {
		target = r.rcID
		for _, q := range d.relays {
			if d.rootOf(q.name) == tg && d.linkUp(q.name) {
				via = append(via, q)
			}
		}
	} else if r != nil {
		target = nameUUID("relay-behind-relay", tg, d.w.seed) // not a collector of the superior
	} else if _, isLeaf := d.home[tg]; !isLeaf {
		target = nameUUID("relay-down", tg, d.w.seed) // a relay that is not connected has no collector id at the superior
	} else if a := d.autos[tg]; d.isAuto(tg) && a != nil && a.lc != nil {
		target = a.lc.ID()
	} else {
		target = nameUUID("leaf", tg, d.w.seed)
	}
	answers := 0
	if kind == "target" {
		answers = d.liveAutosUnder(tg)
		if d.isAuto(tg) && d.home[tg] != "S" {
			answers = 0 // a leaf behind a relay is not known at the superior
		}
	}
	var ch chan *fractal.CollectorMsg
	if !within(3*time.Second, func() { ch = d.ls.AddTask(d.ctx, target, msg) }) {
		return "timeout"
	}
	d.tasks[t] = ch
	for _, r := range via {
		if !waitFor(3*time.Second, func() bool { return r.probe.count(msg.ID()) > 0 }) {
			return "relay-" + r.name + "-never-got-it"
		}
	}
	if answers > 0 {
		// the LocalCollectors answer on their own goroutines: wait for their reports (a missing one shows in Take)
		waitFor(2*time.Second, func() bool { return len(ch) >= answers })
	}
	return "ok"
}

func (d *drv) report(c, t string, ps []string) string {
	sup, r := d.superiorOf(c)
	if sup == nil {
		return "skip"
	}
	tid := nameUUID("task", t, d.w.seed)
	kind := d.kinds[t]
	if kind == "" {
		kind = []string{"bcast", "target"}[pick("unk"+t+c, 2)]
	}
	l := d.leafOf(c)
	res := "ok"
	for _, p := range ps {
		m := d.w.reportMsg(tid, kind, p)
		var err error
		ok := within(3*time.Second, func() {
			if kind == "bcast" {
				err = sup.ReportQualities(d.ctx, l.id, m.(*protocol.ReportQualities))
			} else {
				err = sup.ReportSignature(d.ctx, l.id, m.(*protocol.ReportSignature))
			}
		})
		if !ok {
			return "timeout"
		}
		if err != nil {
			res = "err: " + err.Error()
		}
	}
	if r != nil && !d.linkUp(r.name) {
		// a link on the way up is broken: refused by this relay's writer, or accepted and dropped further up
		return "lost"
	}
	if r != nil && !d.sync(r) {
		return "nosync"
	}
	return res
}

// take: what the waiter reads next without waiting
func (d *drv) take(t string, ev vh.Event) {
	ch := d.tasks[t]
	select {
	case m, ok := <-ch:
		if !ok {
			ev["res"] = "closed"
			return
		}
		ev["res"] = "item"
		src, known := d.srcName[m.CollectorID]
		if !known {
			src = "unknown"
		}
		ev["src"] = src
		ev["p"] = "corrupt"
		if m.Msg == nil {
			return
		}
		tid := nameUUID("task", t, d.w.seed)
		if m.Msg.ID() != tid {
			ev["p"] = "other-task"
			return
		}
		got := enc(m.Msg)
		if d.kinds[t] == "target" {
			for c := range autoSigIdx {
				want := &protocol.ReportSignature{TaskID: tid, SpaceID: "space-" + t, Hash: hashOf("sig" + t), Signature: d.w.k.g2[autoSigIdx[c]]}
				if bytes.Equal(got, enc(want)) {
					ev["p"] = c
				}
			}
		}
		for _, p := range allPayloads {
			if bytes.Equal(got, enc(d.w.reportMsg(tid, d.kinds[t], p))) {
				ev["p"] = p
			}
		}
	default:
		ev["res"] = "empty"
	}
}

var allPayloads = []string{"p1", "p2", "p3", "p4", "p5", "p6"}

func run(sc vh.Scenario, dir string, rec *vh.Rec) {
	w := &world{seed: sc.Seed, k: theKeys}
	d := &drv{w: w, home: map[string]string{}, leaves: map[string]*leaf{}, relays: map[string]*relay{}, tasks: map[string]chan *fractal.CollectorMsg{},
		kinds: map[string]string{}, msgs: map[uuid.UUID]protocol.Message{}, tname: map[uuid.UUID]string{}, srcName: map[uuid.UUID]string{}, autos: map[string]*autoLeaf{}}
	if h, ok := sc.Opt["home"].(map[string]interface{}); ok {
		for k, v := range h {
			d.home[k] = v.(string)
		}
	}
	d.rhome = map[string]string{}
	if h, ok := sc.Opt["rhome"].(map[string]interface{}); ok {
		for k, v := range h {
			d.rhome[k] = v.(string)
		}
	}
	for n, h := range d.home {
		if h == "S" {
			d.srcName[nameUUID("leaf", n, w.seed)] = n
		}
	}
	if err := d.start(); err != nil {
		rec.Dead, rec.Note = true, "cannot start pool: "+err.Error()
		return
	}
	if mode, _ := sc.Opt["mode"].(string); mode != "" {
		special(d, mode, rec)
		rec.DoneAndExit(7)
	}
	for i, st := range sc.Steps {
		ev := vh.Event{"step": i}
		for k, v := range st {
			ev[k] = v
		}
		rec.Begin(ev)
		switch st.A() {
		case "Subscribe":
			if d.isAuto(st.Str("c")) {
				ev["res"] = d.startAuto(st.Str("c"))
				break
			}
			sup, _ := d.superiorOf(st.Str("c"))
			if sup == nil {
				ev["res"] = "skip"
				break
			}
			l := d.leafOf(st.Str("c"))
			ev["res"] = "ok"
			if !within(3*time.Second, func() { sup.Subscribe(d.ctx, l) }) {
				ev["res"] = "timeout"
			}
		case "Unsubscribe":
			if d.isAuto(st.Str("c")) {
				ev["res"] = d.stopAuto(st.Str("c"))
				break
			}
			sup, _ := d.superiorOf(st.Str("c"))
			if sup == nil {
				ev["res"] = "skip"
				break
			}
			l := d.leafOf(st.Str("c"))
			ev["res"] = "ok"
			if !within(3*time.Second, func() { sup.Unsubscribe(d.ctx, l) }) {
				ev["res"] = "timeout"
			}
		case "Connect":
			ev["res"] = d.connect(st.Str("r"))
		case "Disconnect":
			ev["res"] = d.disconnect(st.Str("r"), st.Bool("hard"))
		case "Outage":
			ev["res"] = d.outage(st.Str("r"))
		case "Recover":
			ev["res"] = d.recover(st.Str("r"))
		case "AddB":
			ev["res"] = d.addTask(st.Str("t"), "bcast", "")
		case "AddT":
			ev["res"] = d.addTask(st.Str("t"), "target", st.Str("tg"))
		case "Report":
			ev["res"] = d.report(st.Str("c"), st.Str("t"), vh.StrSeq(st["ps"]))
		case "Take":
			d.take(st.Str("t"), ev)
		case "Remove":
			ev["res"] = "ok"
			if !within(3*time.Second, func() { d.ls.RemoveTask(nameUUID("task", st.Str("t"), w.seed)) }) {
				ev["res"] = "timeout"
			}
			if d.cur == st.Str("t") {
				d.cur = ""
			}
		default:
			ev["res"] = "unknown-step"
		}
		d.settle()
		ev["got"] = d.gotMap()
		rec.Emit(ev)
	}
	// wind down: every stop must return promptly
	end := vh.Event{"step": len(sc.Steps), "a": "End"}
	rec.Begin(end)
	time.Sleep(30 * time.Millisecond)
	d.settle()
	end["got"] = d.gotMap()
	res := "ok"
	names := make([]string, 0)
	for n := range d.relays {
		names = append(names, n)
	}
	sort.Strings(names)
	for _, n := range names {
		if d.relays[n] == nil {
			continue // went away with its parent
		}
		if r := d.disconnect(n); r != "ok" {
			res = "relay-stop-" + r
		}
	}
	for c := range d.autos {
		if r := d.stopAuto(c); r != "ok" {
			res = "collector-stop-" + r
		}
	}
	if !within(3*time.Second, d.stopPl) {
		res = "pool-stop-timeout"
	}
	end["res"] = res
	rec.Emit(end)
	if res != "ok" {
		rec.DoneAndExit(7) // goroutines are stuck: do not reuse this process
	}
}

var theKeys *keys

func main() {
	flag.Parse()
	logging.Init(os.TempDir(), "fractaldrv", "fatal", 1, true)
	theKeys = mkKeys()
	vh.Main(run)
}
