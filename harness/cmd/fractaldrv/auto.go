package main

import (
	"context"
	"errors"
	"sync"
	"time"

	"github.com/google/uuid"
	"github.com/massnetorg/mass-core/poc/chiapos"
	"github.com/massnetorg/mass-core/poc/pocutil"

	"massnet.org/mass/fractal"
	"massnet.org/mass/fractal/protocol"
	engine_v2 "massnet.org/mass/poc/engine.v2"
)

// An auto leaf is a real fractal.LocalCollector over a scripted space keeper: it finds no qualities, has no proofs,
// and signs any hash with its own fixed signature.  What the collector asks its keeper tells which tasks reached it.
type skFake struct {
	d    *drv
	name string
	sig  *chiapos.G2Element
	mu   sync.Mutex
	got  map[string]int // task name -> times handed over
	pro  int            // probe requests seen
}

func (k *skFake) note(t string) {
	k.mu.Lock()
	k.got[t]++
	k.mu.Unlock()
}

func (k *skFake) Start() error  { return nil }
func (k *skFake) Stop() error   { return nil }
func (k *skFake) Started() bool { return true }
func (k *skFake) Type() string  { return "scripted" }
func (k *skFake) WorkSpaceIDs(engine_v2.WorkSpaceStateFlags) ([]string, error) {
	return nil, nil
}
func (k *skFake) WorkSpaceInfos(engine_v2.WorkSpaceStateFlags) ([]engine_v2.WorkSpaceInfo, error) {
	return nil, nil
}
func (k *skFake) GetQuality(context.Context, string, pocutil.Hash) ([]*engine_v2.WorkSpaceQuality, error) {
	return nil, nil
}
func (k *skFake) GetQualities(_ context.Context, _ engine_v2.WorkSpaceStateFlags, ch pocutil.Hash) ([]*engine_v2.WorkSpaceQuality, error) {
	for t := range k.d.kinds {
		if hashOf("ch"+t) == ch {
			k.note(t)
			return nil, nil
		}
	}
	k.note("unknown")
	return nil, nil
}
func (k *skFake) GetQualityReader(context.Context, string, pocutil.Hash) (engine_v2.QualityReader, error) {
	return nil, errors.New("unused")
}
func (k *skFake) GetQualitiesReader(context.Context, engine_v2.WorkSpaceStateFlags, pocutil.Hash) (engine_v2.QualityReader, error) {
	return nil, errors.New("unused")
}
func (k *skFake) GetProof(_ context.Context, sid string, _ pocutil.Hash, _ uint32) (*engine_v2.WorkSpaceProof, error) {
	if sid == "probe" {
		k.mu.Lock()
		k.pro++
		k.mu.Unlock()
	}
	return nil, errors.New("scripted keeper has no proofs")
}
func (k *skFake) GetProofs(context.Context, []string, pocutil.Hash, []uint32) ([]*engine_v2.WorkSpaceProof, error) {
	return nil, errors.New("unused")
}
func (k *skFake) GetProofReader(context.Context, string, pocutil.Hash, uint32) (engine_v2.ProofReader, error) {
	return nil, errors.New("unused")
}
func (k *skFake) GetProofsReader(context.Context, []string, pocutil.Hash, []uint32) (engine_v2.ProofReader, error) {
	return nil, errors.New("unused")
}
func (k *skFake) ActOnWorkSpace(string, engine_v2.ActionType) error { return nil }
func (k *skFake) ActOnWorkSpaces(engine_v2.WorkSpaceStateFlags, engine_v2.ActionType) (map[string]error, error) {
	return nil, nil
}
func (k *skFake) SignHash(sid string, hash [32]byte) (*chiapos.G2Element, error) {
	for t := range k.d.kinds {
		if sid == "space-"+t && pocutil.Hash(hash) == hashOf("sig"+t) {
			k.note(t)
			return k.sig, nil
		}
	}
	k.note("unknown")
	return k.sig, nil
}
func (k *skFake) GetPrivateKey(string) (*chiapos.PrivateKey, error) { return nil, errors.New("unused") }

type autoLeaf struct {
	name string
	sk   *skFake
	lc   *fractal.LocalCollector
	stop context.CancelFunc
	live bool
}

var autoSigIdx = map[string]int{"l1": 1, "l2": 2, "l3": 3}

func (d *drv) isAuto(c string) bool { _, ok := autoSigIdx[c]; return ok }

func (d *drv) autoOf(c string) *autoLeaf {
	a := d.autos[c]
	if a == nil {
		a = &autoLeaf{name: c, sk: &skFake{d: d, name: c, sig: d.w.k.g2[autoSigIdx[c]], got: map[string]int{}}}
		d.autos[c] = a
	}
	return a
}

// startAuto starts the leaf's LocalCollector at its home and waits until it is subscribed there (a probe request
// sent to its id reaches its keeper).
func (d *drv) startAuto(c string) string {
	a := d.autoOf(c)
	if a.live {
		return "ok" // the specification's Subscribe is idempotent; a LocalCollector is started once
	}
	sup, r := d.superiorOf(c)
	if sup == nil {
		return "skip"
	}
	a.lc, a.stop = fractal.NewLocalCollector(d.ctx, sup, a.sk)
	a.live = true
	if r == nil {
		d.srcName[a.lc.ID()] = c
	}
	probe := &protocol.RequestProof{TaskID: uuid.New(), SpaceID: "probe", Challenge: hashOf("probe")}
	a.sk.mu.Lock()
	before := a.sk.pro
	a.sk.mu.Unlock()
	ok := waitFor(3*time.Second, func() bool {
		if r == nil {
			d.ls.Send(d.ctx, a.lc.ID(), probe)
		} else {
			r.prs.Send(d.ctx, a.lc.ID(), probe)
		}
		time.Sleep(2 * time.Millisecond)
		a.sk.mu.Lock()
		defer a.sk.mu.Unlock()
		return a.sk.pro > before
	})
	if !ok {
		return "never-subscribed"
	}
	return "ok"
}

func (d *drv) stopAuto(c string) string {
	a := d.autos[c]
	if a == nil || !a.live {
		return "ok"
	}
	a.live = false
	if !within(3*time.Second, a.stop) {
		return "timeout"
	}
	return "ok"
}

// liveAutosUnder: the auto leaves that will answer a task targeted at node n ("S"-homed leaf name or relay name)
func (d *drv) liveAutosUnder(n string) int {
	k := 0
	for c, a := range d.autos {
		if a.live && (c == n || (d.home[c] != "S" && d.rootOf(d.home[c]) == n && d.linkUp(d.home[c]))) {
			k++
		}
	}
	return k
}
