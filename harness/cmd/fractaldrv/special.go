package main

import (
	"context"
	"fmt"
	"time"

	"github.com/google/uuid"
	"massnet.org/mass/fractal/connection"
	"massnet.org/mass/fractal/protocol"

	"verifharness/vh"
)

// special runs the fixed schedules that need goroutines parked at chosen points.
func special(d *drv, mode string, rec *vh.Rec) {
	ev := vh.Event{"step": 0, "a": mode}
	rec.Begin(ev)
	defer func() {
		if r := recover(); r != nil {
			ev["res"] = fmt.Sprintf("panic: %v", r)
		}
		rec.Emit(ev)
	}()
	switch mode {
	case "Wedge":
		// a waiter that stopped reading: QCap reports fill its channel, one more is parked in the send, then the
		// task is removed and another task is added
		d.addTask("t1", "bcast", "")
		tid := nameUUID("task", "t1", d.w.seed)
		cid := nameUUID("leaf", "c1", d.w.seed)
		for i := 0; i < 10; i++ {
			if !within(2*time.Second, func() { d.ls.ReportQualities(d.ctx, cid, d.w.reportMsg(tid, "bcast", "p1").(*protocol.ReportQualities)) }) {
				ev["res"] = fmt.Sprintf("report %d blocked", i+1)
				return
			}
		}
		rctx, rcancel := context.WithCancel(d.ctx)
		repDone := make(chan string, 1)
		go func() {
			defer func() {
				if r := recover(); r != nil {
					repDone <- fmt.Sprintf("panic: %v", r)
				}
			}()
			err := d.ls.ReportQualities(rctx, cid, d.w.reportMsg(tid, "bcast", "p2").(*protocol.ReportQualities))
			repDone <- fmt.Sprintf("returned: %v", err)
		}()
		time.Sleep(100 * time.Millisecond) // the 11th report is parked now
		rm := within(1500*time.Millisecond, func() { d.ls.RemoveTask(tid) })
		ev["remove_prompt"] = rm
		add := within(1500*time.Millisecond, func() { d.addTask("t2", "target", "c1") })
		ev["add_other_prompt"] = add
		select {
		case r := <-repDone:
			ev["parked_report"] = r
		case <-time.After(300 * time.Millisecond):
			ev["parked_report"] = "still parked"
		}
		rcancel()
		time.Sleep(200 * time.Millisecond)
		ev["res"] = "ok"
	case "DupBroadcast":
		// a collector subscribes while a broadcast task is being added: parked in its first ID() call (made by
		// Subscribe under the registry lock) until AddTask has started
		d.home["c1"] = "S"
		l := d.leafOf("c1")
		l.gate, l.in = make(chan struct{}), make(chan struct{})
		subDone, addDone := make(chan struct{}), make(chan struct{})
		go func() { defer close(subDone); d.ls.Subscribe(d.ctx, l) }()
		<-l.in
		go func() { defer close(addDone); d.addTask("t1", "bcast", "") }()
		time.Sleep(100 * time.Millisecond) // AddTask has stored the task and waits for the registry
		close(l.gate)
		<-subDone
		<-addDone
		d.settle()
		time.Sleep(50 * time.Millisecond)
		ev["handed"] = l.count(nameUUID("task", "t1", d.w.seed))
		ev["res"] = "ok"
	case "BadFrame":
		// a peer sends one frame the codec refuses and keeps sending: the pool must drop it and go on serving
		conn, cancel, err := connection.NewConn(connection.DialAddress(d.addr), connection.KeepaliveInterval(0))
		if err != nil {
			ev["res"] = "dial: " + err.Error()
			return
		}
		waitFor(2*time.Second, func() bool { return d.pool.Count() == 1 })
		conn.Send(d.ctx, []byte{0xff, 0xff, 'x'})
		time.Sleep(50 * time.Millisecond) // the refused frame goes first (the frames below use the priority lane)
		// well-formed reports naming no task: whatever still gets through is dropped by the superior
		good := enc(d.w.reportMsg(nameUUID("task", "nonexistent", d.w.seed), "target", "p1"))
		for i := 0; i < 14; i++ {
			sctx, c := context.WithTimeout(d.ctx, 200*time.Millisecond)
			conn.SendPriority(sctx, good)
			c()
		}
		time.Sleep(300 * time.Millisecond)
		cnt := -1
		ev["count_prompt"] = within(2*time.Second, func() { cnt = int(d.pool.Count()) })
		ev["count"] = cnt
		within(2*time.Second, cancel)
		ev["connect_after"] = "not tried"
		if cnt >= 0 {
			ev["connect_after"] = d.connect("r1")
		}
		ev["res"] = "ok"
		ev["prompt"] = within(3*time.Second, d.stopPl)
	case "PoolStop":
		ev["res"] = "ok"
		ev["prompt"] = within(2*time.Second, d.stopPl)
	case "PoolStopConnected":
		ev["connect"] = d.connect("r1")
		ev["res"] = "ok"
		ev["prompt"] = within(2*time.Second, d.stopPl)
	}
	_ = uuid.Nil
}
