package main

import (
	"context"
	"fmt"
	"time"

	"github.com/google/uuid"
	"massnet.org/mass/fractal/connection"
	"massnet.org/mass/fractal/protocol"
	engine_v2 "massnet.org/mass/poc/engine.v2"

	"verifharness/vh"
)

// special runs the fixed schedules that need goroutines parked at chosen points.
func special(d *drv, mode string, rec *vh.Rec) {
	ev := vh.Event{"step": 0, "a": mode}
	rec.Begin(ev)
	defer func() {
		if r := recover(); r != nil {
			ev["res"] = fmt.Sprintf("panic: %v", r)
		}
		rec.Emit(ev)
	}()
	switch mode {
	case "Wedge":
		// a waiter that stopped reading: QCap reports fill its channel, one more is parked in the send, then the
		// task is removed and another task is added
		d.addTask("t1", "bcast", "")
		tid := nameUUID("task", "t1", d.w.seed)
		cid := nameUUID("leaf", "c1", d.w.seed)
		for i := 0; i < 10; i++ {
			if !within(2*time.Second, func() { d.ls.ReportQualities(d.ctx, cid, d.w.reportMsg(tid, "bcast", "p1").(*protocol.ReportQualities)) }) {
				ev["res"] = fmt.Sprintf("report %d blocked", i+1)
				return
			}
		}
		rctx, rcancel := context.WithCancel(d.ctx)
		repDone := make(chan string, 1)
		go func() {
			defer func() {
				if r := recover(); r != nil {
					repDone <- fmt.Sprintf("panic: %v", r)
				}
			}()
			err := d.ls.ReportQualities(rctx, cid, d.w.reportMsg(tid, "bcast", "p2").(*protocol.ReportQualities))
			repDone <- fmt.Sprintf("returned: %v", err)
		}()
		time.Sleep(100 * time.Millisecond) // the 11th report is parked now
		rm := within(1500*time.Millisecond, func() { d.ls.RemoveTask(tid) })
		ev["remove_prompt"] = rm
		add := within(1500*time.Millisecond, func() { d.addTask("t2", "target", "c1") })
		ev["add_other_prompt"] = add
		select {
		case r := <-repDone:
			ev["parked_report"] = r
		case <-time.After(300 * time.Millisecond):
			ev["parked_report"] = "still parked"
		}
		rcancel()
		time.Sleep(200 * time.Millisecond)
		ev["res"] = "ok"
	case "DupBroadcast":
		// a collector subscribes while a broadcast task is being added: parked in its first ID() call (made by
		// Subscribe under the registry lock) until AddTask has started
		d.home["c1"] = "S"
		l := d.leafOf("c1")
		l.gate, l.in = make(chan struct{}), make(chan struct{})
		subDone, addDone := make(chan struct{}), make(chan struct{})
		go func() { defer close(subDone); d.ls.Subscribe(d.ctx, l) }()
		<-l.in
		go func() { defer close(addDone); d.addTask("t1", "bcast", "") }()
		time.Sleep(100 * time.Millisecond) // AddTask has stored the task and waits for the registry
		close(l.gate)
		<-subDone
		<-addDone
		d.settle()
		time.Sleep(50 * time.Millisecond)
		ev["handed"] = l.count(nameUUID("task", "t1", d.w.seed))
		ev["res"] = "ok"
	case "Reborn":
		// the connection of a relay is reset in the middle and the relay stays up: after its retry interval (30 s) the
		// PersistentRemoteSuperior dials again; the relay's own collectors stay subscribed across the outage
		d.home["c3"] = "r1"
		ev["connect"] = d.connect("r1")
		r := d.relays["r1"]
		if r == nil {
			ev["res"] = "no relay"
			return
		}
		l := d.leafOf("c3")
		r.prs.Subscribe(d.ctx, l)
		ev["add_t1"] = d.addTask("t1", "bcast", "")
		d.settle()
		t1 := nameUUID("task", "t1", d.w.seed)
		ev["t1_before"] = l.count(t1)
		oldID := r.rcID
		r.px.cut()
		ev["pool_noticed"] = waitFor(3*time.Second, func() bool { return d.pool.Count() == 0 })
		ev["reborn"] = waitFor(45*time.Second, func() bool { return d.pool.Count() == 1 })
		// the relay is a new collector for the superior; learn its id and check the path both ways
		// the pool has the new connection before the relay has switched to it (Reborn installs the new reader and
		// writer after the dial returned): reports sent in between go to the old, closed writer and are refused
		synced := false
		for try := 0; try < 15 && !synced; try++ {
			synced = d.sync(r)
			if !synced {
				time.Sleep(300 * time.Millisecond)
			}
		}
		ev["sync_after"] = synced
		// each lane on its own
		for _, lane := range []string{"ordinary", "priority"} {
			var err error
			tag := "probe-" + lane
			if lane == "ordinary" {
				err = r.prs.ReportQualities(d.ctx, r.probe.id, &protocol.ReportQualities{TaskID: d.helloID, Qualities: []*protocol.Quality{{WorkSpaceQuality: &engine_v2.WorkSpaceQuality{
					SpaceID: tag, PublicKey: d.w.k.g1[0], PoolPublicKey: d.w.k.g1[1], Quality: []byte{1}, PlotID: hashOf("m")}}}})
			} else {
				err = r.prs.ReportSignature(d.ctx, r.probe.id, &protocol.ReportSignature{TaskID: d.helloID, SpaceID: tag, Hash: hashOf("m"), Signature: d.w.k.g2[0]})
			}
			got := "no"
			deadline := time.After(3 * time.Second)
		wait:
			for {
				select {
				case m := <-d.hello:
					if m != nil {
						got = "yes"
						r.rcID = m.CollectorID
						d.srcName[r.rcID] = "r1"
						break wait
					}
				case <-deadline:
					break wait
				}
			}
			ev["lane_"+lane] = fmt.Sprintf("err=%v arrived=%s", err, got)
		}
		ev["new_id"] = r.rcID != oldID
		waitFor(3*time.Second, func() bool { return l.count(t1) >= 2 })
		ev["t1_after"] = l.count(t1) // handed over again: the relay connected while t1 is current
		ev["add_t2"] = d.addTask("t2", "target", "r1")
		d.settle()
		ev["t2"] = l.count(nameUUID("task", "t2", d.w.seed))
		ev["report"] = d.report("c3", "t2", []string{"p4"})
		tk := vh.Event{}
		d.take("t2", tk)
		ev["take"] = fmt.Sprintf("%v/%v/%v", tk["res"], tk["src"], tk["p"])
		ev["disconnect"] = d.disconnect("r1")
		ev["prompt"] = within(3*time.Second, d.stopPl)
		ev["res"] = "ok"
	case "BadFrame":
		// a peer sends one frame the codec refuses and keeps sending: the pool must drop it and go on serving
		conn, cancel, err := connection.NewConn(connection.DialAddress(d.addr), connection.KeepaliveInterval(0))
		if err != nil {
			ev["res"] = "dial: " + err.Error()
			return
		}
		waitFor(2*time.Second, func() bool { return d.pool.Count() == 1 })
		conn.Send(d.ctx, []byte{0xff, 0xff, 'x'})
		time.Sleep(50 * time.Millisecond) // the refused frame goes first (the frames below use the priority lane)
		// well-formed reports naming no task: whatever still gets through is dropped by the superior
		good := enc(d.w.reportMsg(nameUUID("task", "nonexistent", d.w.seed), "target", "p1"))
		for i := 0; i < 14; i++ {
			sctx, c := context.WithTimeout(d.ctx, 200*time.Millisecond)
			conn.SendPriority(sctx, good)
			c()
		}
		time.Sleep(300 * time.Millisecond)
		cnt := -1
		ev["count_prompt"] = within(2*time.Second, func() { cnt = int(d.pool.Count()) })
		ev["count"] = cnt
		within(2*time.Second, cancel)
		ev["connect_after"] = "not tried"
		if cnt >= 0 {
			ev["connect_after"] = d.connect("r1")
		}
		ev["res"] = "ok"
		ev["prompt"] = within(3*time.Second, d.stopPl)
	case "PoolStop":
		ev["res"] = "ok"
		ev["prompt"] = within(2*time.Second, d.stopPl)
	case "PoolStopConnected":
		ev["connect"] = d.connect("r1")
		ev["res"] = "ok"
		ev["prompt"] = within(2*time.Second, d.stopPl)
	}
	_ = uuid.Nil
}
