package main

// ref.go: BIP32 as written in specs/HDKey.tla part 1 (Master, CKDpriv, CKDpub, Neuter, Ser), transcribed over
// HMAC-SHA512, SHA256, RIPEMD160 (Go standard library / x/crypto) and the secp256k1 group law of mass-core's pocec.
// It deliberately shares no code with poc/wallet/keystore/hdkeychain.

import (
	"crypto/hmac"
	"crypto/sha256"
	"crypto/sha512"
	"encoding/binary"
	"errors"
	"math/big"

	"github.com/massnetorg/mass-core/pocec"
	"golang.org/x/crypto/ripemd160"

	"massnet.org/mass/config"
)

type refKey struct {
	priv     []byte // ser256(k), always 32 bytes; nil for a public key
	pub      []byte // serP(K), 33 bytes
	chain    []byte
	depth    byte
	parentFP []byte
	childNum uint32
}

var curveN = pocec.S256().N

func ser256(k *big.Int) []byte {
	b := k.Bytes()
	out := make([]byte, 32)
	copy(out[32-len(b):], b)
	return out
}

func serP(k []byte) []byte {
	x, y := pocec.S256().ScalarBaseMult(k)
	pk := pocec.PublicKey{Curve: pocec.S256(), X: x, Y: y}
	return pk.SerializeCompressed()
}

func hmac512(key, data []byte) ([]byte, []byte) {
	h := hmac.New(sha512.New, key)
	h.Write(data)
	s := h.Sum(nil)
	return s[:32], s[32:]
}

func refMaster(seed []byte) (*refKey, error) {
	if len(seed) < 16 || len(seed) > 64 {
		return nil, errors.New("seed length")
	}
	il, ir := hmac512([]byte("Bitcoin seed"), seed)
	k := new(big.Int).SetBytes(il)
	if k.Sign() == 0 || k.Cmp(curveN) >= 0 {
		return nil, errors.New("unusable seed")
	}
	return &refKey{priv: il, pub: serP(il), chain: ir, depth: 0, parentFP: []byte{0, 0, 0, 0}}, nil
}

func (k *refKey) fingerprint() []byte {
	s := sha256.Sum256(k.pub)
	r := ripemd160.New()
	r.Write(s[:])
	return r.Sum(nil)[:4]
}

func (k *refKey) child(i uint32) (*refKey, error) {
	if k.depth == 255 {
		return nil, errors.New("depth")
	}
	hard := i >= 0x80000000
	var data []byte
	if hard {
		if k.priv == nil {
			return nil, errors.New("hardened from public")
		}
		data = append([]byte{0x00}, k.priv...) // 0x00 || ser256(kpar)
	} else {
		data = append([]byte{}, k.pub...) // serP(Kpar)
	}
	var idx [4]byte
	binary.BigEndian.PutUint32(idx[:], i)
	data = append(data, idx[:]...)
	il, ir := hmac512(k.chain, data)
	ilNum := new(big.Int).SetBytes(il)
	if ilNum.Cmp(curveN) >= 0 || ilNum.Sign() == 0 {
		return nil, errors.New("invalid child")
	}
	c := &refKey{chain: ir, depth: k.depth + 1, parentFP: k.fingerprint(), childNum: i}
	if k.priv != nil {
		kc := new(big.Int).Add(ilNum, new(big.Int).SetBytes(k.priv))
		kc.Mod(kc, curveN)
		if kc.Sign() == 0 {
			return nil, errors.New("invalid child")
		}
		c.priv = ser256(kc)
		c.pub = serP(c.priv)
	} else {
		ix, iy := pocec.S256().ScalarBaseMult(il)
		pp, err := pocec.ParsePubKey(k.pub, pocec.S256())
		if err != nil {
			return nil, err
		}
		x, y := pocec.S256().Add(ix, iy, pp.X, pp.Y)
		if x.Sign() == 0 && y.Sign() == 0 {
			return nil, errors.New("invalid child")
		}
		pk := pocec.PublicKey{Curve: pocec.S256(), X: x, Y: y}
		c.pub = pk.SerializeCompressed()
	}
	return c, nil
}

func (k *refKey) neuter() *refKey {
	c := *k
	c.priv = nil
	return &c
}

// String: version || depth || parent fingerprint || child number || chain code || key data, base58check
func (k *refKey) String() string {
	var b []byte
	if k.priv != nil {
		b = append(b, config.ChainParams.HDPrivateKeyID[:]...)
	} else {
		b = append(b, config.ChainParams.HDPublicKeyID[:]...)
	}
	b = append(b, k.depth)
	b = append(b, k.parentFP...)
	var idx [4]byte
	binary.BigEndian.PutUint32(idx[:], k.childNum)
	b = append(b, idx[:]...)
	b = append(b, k.chain...)
	if k.priv != nil {
		b = append(b, 0x00)
		b = append(b, k.priv...)
	} else {
		b = append(b, k.pub...)
	}
	h1 := sha256.Sum256(b)
	h2 := sha256.Sum256(h1[:])
	b = append(b, h2[:4]...)
	return base58(b)
}

const b58 = "123456789ABCDEFGHJKLMNPQRSTUVWXYZabcdefghijkmnopqrstuvwxyz"

func base58(in []byte) string {
	x := new(big.Int).SetBytes(in)
	radix := big.NewInt(58)
	mod := new(big.Int)
	var out []byte
	for x.Sign() > 0 {
		x.DivMod(x, radix, mod)
		out = append(out, b58[mod.Int64()])
	}
	for _, c := range in {
		if c != 0 {
			break
		}
		out = append(out, '1')
	}
	for i, j := 0, len(out)-1; i < j; i, j = i+1, j-1 {
		out[i], out[j] = out[j], out[i]
	}
	return string(out)
}
