// hdkeydrv runs every derivation program and mnemonic case of specs/HDKey.tla on the real hdkeychain / mnemonic
// code and, in lock-step, on ref.go: a line-by-line transcription of the BIP32 formulae of HDKey.tla part 1 over
// HMAC-SHA512 and secp256k1.  After every step the serialised keys must be equal; at the end of a program the
// self-consistency laws of the property are checked on the real keys.
package main

import (
	"bytes"
	"flag"
	"fmt"
	"strings"

	"massnet.org/mass/config"
	"massnet.org/mass/poc/wallet/keystore"
	"massnet.org/mass/poc/wallet/keystore/hdkeychain"

	"verifharness/vh"
)

const H = hdkeychain.HardenedKeyStart

type st struct {
	real *hdkeychain.ExtendedKey
	ref  *refKey
}

func seedOf(class string, r interface{ Read([]byte) (int, error) }) []byte {
	n := map[string]int{"len16": 16, "len32": 32, "len64": 64, "len15": 15, "len65": 65}[class]
	b := make([]byte, n)
	r.Read(b)
	return b
}

// child derives child i on both sides; ok=false when the index is invalid (both sides must agree on that)
func child(s st, i uint32) (st, bool, string) {
	rk, rerr := s.real.Child(i)
	fk, ferr := s.ref.child(i)
	if (rerr == nil) != (ferr == nil) {
		return st{}, false, fmt.Sprintf("Child(%d): real err=%v, formulae err=%v", i, rerr, ferr)
	}
	if rerr != nil {
		return st{}, false, ""
	}
	return st{rk, fk}, true, ""
}

func deriveProgram(fr map[string]interface{}, sc vh.Scenario, ev vh.Event, r interface {
	Read([]byte) (int, error)
	Intn(int) int
}) {
	seed := seedOf(fr["seed"].(string), r)
	real, err := hdkeychain.NewMaster(seed, config.ChainParams)
	ref, rerr := refMaster(seed)
	ev["master"] = err == nil
	if (err == nil) != (rerr == nil) {
		ev["note"] = fmt.Sprintf("NewMaster err=%v, formulae err=%v", err, rerr)
		ev["master"] = "disagree"
		return
	}
	if err != nil {
		return
	}
	eq, neuter, rt, hardpub := true, true, true, true
	note := ""
	// F-C18 (known finding): a hardened child of a private parent whose 32-byte scalar starts with a zero byte is
	// derived from a mis-aligned HMAC input.  A mismatch at such a derivation, and everything derived from it,
	// is attributed to that finding; any other mismatch is not.
	shortParent := false // the current real key descends from such a derivation
	unknownFail := false
	knownFail := false
	knownCtx := false // set around comparisons that involve a hardened child of a short-scalar parent
	fail := func(flag *bool, f string, a ...interface{}) {
		*flag = false
		if knownCtx || shortParent {
			knownFail = true
		} else {
			unknownFail = true
		}
		if note == "" {
			note = fmt.Sprintf(f, a...)
		}
	}
	cur := st{real, ref}
	cmp := func(where string, s st) {
		if s.real.String() != s.ref.String() {
			fail(&eq, "%s: real %s, BIP32 formulae %s", where, s.real.String(), s.ref.String())
		}
	}
	cmp("master", cur)
	steps := 0
	path := vh.StrSeq(fr["path"])
	trail := "m"
	for _, op := range path {
		switch op {
		case "H", "N", "Hz", "Nz":
			base := uint32(r.Intn(1 << 20))
			if op[0] == 'H' {
				base += H
			}
			found := false
			for try := uint32(0); try < 6000; try++ {
				if !cur.real.IsPrivate() && op[0] == 'H' {
					break
				}
				knownCtx = op[0] == 'H' && cur.ref.priv != nil && cur.ref.priv[0] == 0
				nx, ok, msg := child(cur, base+try)
				if msg != "" {
					fail(&eq, "%s", msg)
					break
				}
				if !ok {
					continue
				}
				if len(op) == 2 && cur.real.IsPrivate() && nx.ref.priv[0] != 0 { // want a child scalar with a leading zero byte
					continue
				}
				if knownCtx && nx.real.String() != nx.ref.String() {
					shortParent = true
				}
				cur, found = nx, true
				trail += fmt.Sprintf("/%d", base+try)
				break
			}
			if !found {
				fail(&eq, "no usable child found for step %s", op)
			}
		case "Z":
			// derive a throw-away child and zero it: the parent and later siblings must not be affected
			if c, err := cur.real.Child(uint32(r.Intn(1000))); err == nil {
				c.Zero()
			}
		case "R":
			k2, err := hdkeychain.NewKeyFromString(cur.real.String())
			if err != nil {
				fail(&rt, "Parse(Ser(k)) failed: %v", err)
			} else {
				cur.real = k2
			}
		case "P":
			pk, err := cur.real.Neuter()
			if err != nil {
				fail(&neuter, "Neuter: %v", err)
			} else {
				cur = st{pk, cur.ref.neuter()}
			}
		}
		steps++
		cmp(trail+" after "+op, cur)
		knownCtx = false
		if op == "R" {
			// after Parse(Ser(k)) the real key holds the padded scalar again: derivations from it are BIP32's, but if it
			// descends from a mis-derived key it stays different from the formulae's key
		}
	}
	ev["steps"], ev["path"] = steps, trail
	// laws on the final key
	k := cur.real
	for _, i := range []uint32{0, 1, uint32(r.Intn(1 << 30)), H, H + 297, H + uint32(r.Intn(1<<30))} {
		hard := i >= H
		knownCtx = hard && cur.ref.priv != nil && cur.ref.priv[0] == 0
		// round trip: Parse(Ser(k)).Child(i) == k.Child(i)
		k2, err := hdkeychain.NewKeyFromString(k.String())
		if err != nil {
			fail(&rt, "Parse(Ser(k)): %v", err)
			continue
		}
		c1, e1 := k.Child(i)
		c2, e2 := k2.Child(i)
		if (e1 == nil) != (e2 == nil) || (e1 == nil && c1.String() != c2.String()) {
			fail(&rt, "%s: k.Child(%d)=%v differs from Parse(Ser(k)).Child(%d)=%v", trail, i, c1, i, c2)
		}
		fc, fe := cur.ref.child(i)
		if (!k.IsPrivate() && hard) != (e1 != nil) && fe == nil {
			fail(&hardpub, "Child(%d) on %s key: err=%v", i, map[bool]string{true: "private", false: "public"}[k.IsPrivate()], e1)
		}
		if e1 == nil && fe == nil && c1.String() != fc.String() {
			fail(&eq, "%s/%d: real %s, BIP32 formulae %s", trail, i, c1.String(), fc.String())
		}
		if k.IsPrivate() && !hard && e1 == nil {
			// public derivation from the public parent = public half of the private derivation
			pub, _ := k.Neuter()
			pc, pe := pub.Child(i)
			cn, _ := c1.Neuter()
			if pe != nil || cn == nil || pc.String() != cn.String() {
				fail(&neuter, "%s: Neuter(k).Child(%d) differs from Neuter(k.Child(%d))", trail, i, i)
			}
		}
		if k.IsPrivate() {
			pub, _ := k.Neuter()
			if _, pe := pub.Child(H + 5); pe == nil {
				fail(&hardpub, "hardened child derived from a public key")
			}
		}
	}
	knownCtx = false
	ev["equalsBIP32"], ev["neuterLaw"], ev["roundTripLaw"], ev["hardFromPubRefused"] = eq, neuter, rt, hardpub
	if knownFail && !unknownFail {
		ev["kf"] = "C18-hardened-child-of-short-scalar"
	}
	if note != "" {
		ev["note"] = note
	}
	if fr["kind"] == "deep" {
		d := st{real, ref}
		okd := true
		for n := 0; n < 255; n++ {
			nx, ok, msg := child(d, uint32(n%7))
			if !ok || msg != "" {
				nx, ok, _ = child(d, uint32(1000+n))
			}
			if !ok {
				okd = false
				break
			}
			d = nx
		}
		ev["depth255"] = okd && d.real.Depth() == 255 && d.real.String() == d.ref.String()
		_, e := d.real.Child(0)
		ev["beyondRefused"] = e != nil
	}
}

func mnemonicCase(fr map[string]interface{}, ev vh.Event, r interface {
	Read([]byte) (int, error)
	Intn(int) int
}) {
	bits := int(fr["bits"].(float64))
	ent := make([]byte, bits/8)
	r.Read(ent)
	switch fr["class"] {
	case "allzero":
		for i := range ent {
			ent[i] = 0
		}
	case "leadingzero":
		ent[0] = 0
		if len(ent) > 1 && ent[1] == 0 {
			ent[1] = 0x5a
		}
	case "twoleadingzeros":
		ent[0], ent[1] = 0, 0
	case "allones":
		for i := range ent {
			ent[i] = 0xff
		}
	case "trailingzero":
		ent[len(ent)-1] = 0
	}
	m, err := keystore.NewMnemonic(ent)
	ev["made"] = err == nil
	if err != nil {
		return
	}
	words := strings.Fields(m)
	ev["words0"] = len(words)
	switch fr["corrupt"] {
	case "badword":
		words[r.Intn(len(words))] = "notaword"
	case "dropword":
		words = words[:len(words)-1]
	case "extraword":
		words = append(words, words[0])
	case "emptysentence":
		words = nil
	}
	ev["words"] = len(words)
	back, err := keystore.EntropyFromMnemonic(strings.Join(words, " "))
	ev["back"] = err == nil && bytes.Equal(back, ent)
	if err == nil && !bytes.Equal(back, ent) {
		ev["note"] = fmt.Sprintf("mnemonic decodes to %x, entropy was %x", back, ent)
	}
	if err != nil {
		ev["err"] = err.Error()
	}
	if fr["corrupt"] == "none" && keystore.IsMnemonicValid(m) != (err == nil) {
		ev["back"] = false
		ev["note"] = "IsMnemonicValid disagrees with EntropyFromMnemonic"
	}
}

func run(sc vh.Scenario, dir string, rec *vh.Rec) {
	r := vh.Rng(sc.Seed)
	reps := 1
	if v, ok := sc.Opt["reps"].(float64); ok {
		reps = int(v)
	}
	for _, stp := range sc.Steps {
		fr, _ := stp["frame"].(map[string]interface{})
		n := reps
		if fr["kind"] == "deep" {
			n = 1
		}
		for k := 0; k < n; k++ {
			ev := vh.Event{"a": "Case", "frame": fr}
			rec.Begin(ev)
			func() {
				defer func() {
					if p := recover(); p != nil {
						ev["panic"] = fmt.Sprint(p)
					}
				}()
				if fr["kind"] == "mnemonic" {
					mnemonicCase(fr, ev, r)
				} else {
					deriveProgram(fr, sc, ev, r)
				}
			}()
			rec.Emit(ev)
		}
	}
}

func main() {
	flag.Parse()
	vh.Main(run)
}
