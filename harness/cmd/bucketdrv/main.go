// bucketdrv replays TLC-generated behaviours of specs/BucketStore.tla against the real
// LevelDB-backed bucket store (poc/wallet/db + ldb) and records, after every call, the result,
// the whole tree as seen through the API, and the whole tree as seen by a second handle opened
// on a copy of the store directory ("as if the process had died and restarted now").
package main

import (
	"time"
	"bytes"
	"flag"
	"fmt"
	"os"
	"path/filepath"
	"sort"
	"strings"

	"massnet.org/mass/poc/wallet/db"
	_ "massnet.org/mass/poc/wallet/db/ldb"

	"verifharness/vh"
)

// conc maps abstract characters to bytes.  Every character maps to one byte (injective), except L,
// which is a run of 257 bytes of a byte value nothing else uses.
type conc struct {
	ch   map[string][]byte
	vals map[string][]byte
}

func newConc(seed int64) *conc {
	r := vh.Rng(seed)
	pick := func(opts ...byte) []byte { return []byte{opts[r.Intn(len(opts))]} }
	c := &conc{ch: map[string][]byte{}, vals: map[string][]byte{}}
	c.ch["x"] = pick('x', 'a', 't', 0xc3)
	c.ch["b"] = []byte{'b'} // first letter of the backend's bucket-index keys
	c.ch["1"] = []byte{'1'} // depth digits of the backend's key prefixes
	c.ch["2"] = []byte{'2'}
	c.ch["_"] = []byte{'_'} // the backend's separator
	c.ch["k"] = pick('k', 'K', '3', ' ')
	c.ch["N"] = pick(0x00, 0xff, '\n', 0x80)
	c.ch["L"] = bytes.Repeat([]byte{'y'}, 257)
	c.vals["v1"] = [][]byte{[]byte("v1"), {0x00}, []byte("_")}[r.Intn(3)]
	c.vals["v2"] = [][]byte{[]byte("v2"), {0xff, 0x00}, []byte("b_1_x")}[r.Intn(3)]
	c.vals["v3"] = [][]byte{[]byte("value-three"), bytes.Repeat([]byte{'z'}, 5000)}[r.Intn(2)]
	c.vals[""] = []byte{}
	return c
}

func (c *conc) bytesOf(seq []string) []byte {
	var out []byte
	for _, ch := range seq {
		b, ok := c.ch[ch]
		if !ok {
			b = []byte("?" + ch)
		}
		out = append(out, b...)
	}
	return out
}

// abstract maps bytes back to characters; unknown bytes become "?hh" so that TLC rejects them.
func (c *conc) abstract(b []byte) []string {
	out := []string{}
	for i := 0; i < len(b); {
		if b[i] == 'y' && i+257 <= len(b) && bytes.Equal(b[i:i+257], c.ch["L"]) {
			out = append(out, "L")
			i += 257
			continue
		}
		found := ""
		for ch, v := range c.ch {
			if len(v) == 1 && v[0] == b[i] {
				found = ch
			}
		}
		if found == "" {
			found = fmt.Sprintf("?%02x", b[i])
		}
		out = append(out, found)
		i++
	}
	return out
}

func (c *conc) absVal(b []byte) string {
	if b == nil {
		return "nil"
	}
	for n, v := range c.vals {
		if n != "" && bytes.Equal(v, b) {
			return n
		}
	}
	if len(b) == 0 {
		return "empty"
	}
	return fmt.Sprintf("?%x", b)
}

// reader is the part of a transaction a dump needs (write and read transactions both have it).
type reader interface {
	TopLevelBucket(name string) db.Bucket
	BucketNames() ([]string, error)
}

func resolve(tx reader, c *conc, path [][]string) db.Bucket {
	if len(path) == 0 {
		return nil
	}
	b := tx.TopLevelBucket(string(c.bytesOf(path[0])))
	for _, n := range path[1:] {
		if b == nil {
			return nil
		}
		b = b.Bucket(string(c.bytesOf(n)))
	}
	return b
}

type dump struct {
	B  [][][]string      `json:"b"`
	Kv [][3]interface{}  `json:"kv"`
	E  string            `json:"err,omitempty"`
}

func dumpTree(tx reader, c *conc) (d dump) {
	d.B = [][][]string{}
	d.Kv = [][3]interface{}{}
	defer func() {
		if r := recover(); r != nil {
			d.E = fmt.Sprintf("panic: %v", r)
		}
	}()
	tops, err := tx.BucketNames()
	if err != nil {
		d.E = "topnames: " + err.Error()
		return
	}
	sort.Strings(tops)
	var walk func(b db.Bucket, path [][]string)
	walk = func(b db.Bucket, path [][]string) {
		d.B = append(d.B, path)
		ents, err := b.GetByPrefix(nil)
		if err != nil {
			d.E = "scan: " + err.Error()
			return
		}
		for _, e := range ents {
			d.Kv = append(d.Kv, [3]interface{}{path, c.abstract(e.Key), c.absVal(e.Value)})
		}
		names, err := b.BucketNames()
		if err != nil {
			d.E = "names: " + err.Error()
			return
		}
		for _, n := range names {
			sub := b.Bucket(n)
			p2 := append(append([][]string{}, path...), c.abstract([]byte(n)))
			if sub == nil {
				d.E = "listed sub-bucket not found: " + n
				d.B = append(d.B, append(p2, []string{"?unresolvable"}))
				continue
			}
			walk(sub, p2)
		}
	}
	for _, t := range tops {
		b := tx.TopLevelBucket(t)
		p := [][]string{c.abstract([]byte(t))}
		if b == nil {
			d.E = "listed top bucket not found: " + t
			d.B = append(d.B, append(p, []string{"?unresolvable"}))
			continue
		}
		walk(b, p)
	}
	return
}

func errRes(err error) string {
	if err == nil {
		return "ok"
	}
	return "err"
}

func run(sc vh.Scenario, dir string, tr *vh.Rec) {
	c := newConc(sc.Seed)
	tr.Conc = map[string]string{}
	for k, v := range c.ch {
		if len(v) == 1 {
			tr.Conc[k] = fmt.Sprintf("%02x", v)
		}
	}
	dbdir := filepath.Join(dir, "db")
	store, err := db.CreateDB("leveldb", dbdir)
	if err != nil {
		tr.Dead, tr.Note = true, "createdb: "+err.Error()
		return
	}
	defer func() {
		if store != nil {
			store.Close()
		}
	}()
	var tx db.DBTransaction
	ncopy := 0
	for i, st := range sc.Steps {
		ev := map[string]interface{}{"a": st.A(), "i": i + 1}
		for _, k := range []string{"p", "n", "k", "v"} {
			if v, ok := st[k]; ok {
				ev[k] = v
			}
		}
		tr.Begin(ev)
		path := vh.SeqSeq(st["p"])
		name := string(c.bytesOf(vh.StrSeq(st["n"])))
		key := c.bytesOf(vh.StrSeq(st["k"]))
		res, out := "ok", interface{}("-")
		func() {
			defer func() {
				if r := recover(); r != nil {
					res = fmt.Sprintf("panic: %v", r)
				}
			}()
			needTx := func() bool {
				if tx == nil {
					res = "notx"
					return false
				}
				return true
			}
			switch st.A() {
			case "Begin":
				if tx != nil {
					res = "txopen"
					return
				}
				t, err := store.BeginTx()
				if err != nil {
					res = "err"
					return
				}
				tx = t
			case "Commit":
				if needTx() {
					res = errRes(tx.Commit())
					tx = nil
				}
			case "Rollback":
				if needTx() {
					res = errRes(tx.Rollback())
					tx = nil
				}
			case "Reopen":
				if tx != nil {
					res = "txopen"
					return
				}
				if err := store.Close(); err != nil {
					res = "err"
					return
				}
				store = nil
				s2, err := db.OpenDB("leveldb", dbdir)
				if err != nil {
					res = "err"
					return
				}
				store = s2
			case "CreateTop":
				if needTx() {
					_, err := tx.CreateTopLevelBucket(name)
					res = errRes(err)
				}
			case "NewBucket", "DeleteBucket", "Put", "Delete", "Clear", "Get", "Scan", "Names":
				if !needTx() {
					return
				}
				b := resolve(tx, c, path)
				if b == nil {
					res = "nobucket"
					return
				}
				switch st.A() {
				case "NewBucket":
					_, err := b.NewBucket(name)
					res = errRes(err)
				case "DeleteBucket":
					res = errRes(b.DeleteBucket(name))
				case "Put":
					res = errRes(b.Put(key, c.vals[st.Str("v")]))
				case "Delete":
					res = errRes(b.Delete(key))
				case "Clear":
					res = errRes(b.Clear())
				case "Get":
					v, err := b.Get(key)
					res, out = errRes(err), c.absVal(v)
				case "Scan":
					res, out = scan(b, c, key)
				case "Names":
					res, out = names(b, c)
				}
			case "RGet", "RScan", "RNames":
				rtx, err := store.BeginReadTx()
				if err != nil {
					res = "err"
					return
				}
				defer rtx.Rollback()
				b := resolve(rtx, c, path)
				if b == nil {
					res = "nobucket"
					return
				}
				switch st.A() {
				case "RGet":
					v, err := b.Get(key)
					res, out = errRes(err), c.absVal(v)
				case "RScan":
					res, out = scan(b, c, key)
				case "RNames":
					res, out = names(b, c)
				}
			default:
				res = "unknown-action"
			}
		}()
		ev["res"], ev["out"] = res, out
		// projection 1: the tree as the API shows it (through the open transaction, else a read transaction)
		if tx != nil {
			ev["view"] = dumpTree(tx, c)
		} else if store != nil {
			rtx, _ := store.BeginReadTx()
			ev["view"] = dumpTree(rtx, c)
			rtx.Rollback()
		}
		// projection 2: the tree a fresh process would see now
		ncopy++
		cp := filepath.Join(dir, fmt.Sprintf("copy%d", ncopy))
		// Copying a directory that a live goleveldb instance owns is not atomic (its background goroutine may rotate
		// the manifest or drop an obsolete table in between): retry until the copy opens; a copy that never opens is a
		// failure of this harness, not an observation
		var s2 db.DB
		var err error
		for attempt := 0; attempt < 10; attempt++ {
			os.RemoveAll(cp)
			if err = vh.CopyDir(dbdir, cp); err != nil {
				time.Sleep(5 * time.Millisecond)
				continue
			}
			os.Remove(filepath.Join(cp, "LOCK"))
			if s2, err = db.OpenDB("leveldb", cp); err == nil {
				break
			}
			time.Sleep(10 * time.Millisecond)
		}
		if err != nil {
			tr.Dead, tr.Note = true, "copy of the live store never opened: "+err.Error()
			return
		} else {
			rtx, _ := s2.BeginReadTx()
			ev["disk"] = dumpTree(rtx, c)
			rtx.Rollback()
			s2.Close()
		}
		os.RemoveAll(cp)
		tr.Emit(ev)
		if strings.HasPrefix(res, "panic") || store == nil {
			break
		}
	}
	if tx != nil {
		tx.Rollback()
	}
	return
}

func scan(b db.Bucket, c *conc, pre []byte) (string, interface{}) {
	ents, err := b.GetByPrefix(pre)
	if err != nil {
		return "err", "-"
	}
	out := [][2]interface{}{}
	for _, e := range ents {
		out = append(out, [2]interface{}{c.abstract(e.Key), c.absVal(e.Value)})
	}
	return "ok", out
}

func names(b db.Bucket, c *conc) (string, interface{}) {
	ns, err := b.BucketNames()
	if err != nil {
		return "err", "-"
	}
	out := [][]string{}
	for _, n := range ns {
		out = append(out, c.abstract([]byte(n)))
	}
	return "ok", out
}

func main() {
	flag.Parse()
	vh.Main(run)
}
