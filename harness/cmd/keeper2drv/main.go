// keeper2drv drives the chia space keeper (poc/engine.v2/spacekeeper/skchia), the second implementation of the
// workspace state machine of specs/Keeper.tla, with a scripted plot backend (the massdb.DBBackendList entry of
// engine.v2 is replaced: a "plot file" is an empty file whose name selects fixed keys).  Chia workspaces are plotted
// elsewhere, so every space starts ready and the plotter goroutine never has work; the same specification applies
// with that initial state.  Two modes: scenarios of single and bulk requests with keeper start / stop, recorded in
// the format of keeperdrv (without the bookkeeping fields, there is no hook in skchia); histories of concurrent
// callers (C13).
package main

import (
	"context"
	"crypto/sha256"
	"errors"
	"flag"
	"fmt"
	"os"
	"path/filepath"
	"sort"
	"strings"
	"sync"
	"time"

	"github.com/massnetorg/mass-core/logging"
	"github.com/massnetorg/mass-core/poc/chiapos"
	"github.com/massnetorg/mass-core/poc/pocutil"

	"massnet.org/mass/config"
	engine "massnet.org/mass/poc/engine.v2"
	"massnet.org/mass/poc/engine.v2/massdb"
	_ "massnet.org/mass/poc/engine.v2/massdb/massdb.chiapos"
	"massnet.org/mass/poc/engine.v2/spacekeeper"
	_ "massnet.org/mass/poc/engine.v2/spacekeeper/skchia"

	"verifharness/vh"
)

type fakeDB struct {
	file string
	info *chiapos.PlotInfo
	id   [32]byte
}

func (d *fakeDB) Type() string                { return "chiapos" }
func (d *fakeDB) Close() error                { return nil }
func (d *fakeDB) Ready() bool                 { return true }
func (d *fakeDB) BitLength() int              { return 32 }
func (d *fakeDB) ID() [32]byte                { return d.id }
func (d *fakeDB) PlotInfo() *chiapos.PlotInfo { return d.info }
func (d *fakeDB) GetQualities(challenge pocutil.Hash) ([][]byte, error) {
	return [][]byte{[]byte("quality-" + filepath.Base(d.file))}, nil
}
func (d *fakeDB) GetProof(pocutil.Hash, uint32) (*chiapos.ProofOfSpace, error) {
	return nil, errors.New("scripted backend has no proofs")
}

var keys []*chiapos.G1Element

func mkKeys() {
	scheme := chiapos.NewAugSchemeMPL()
	for i := 0; i < 8; i++ {
		sd := sha256.Sum256([]byte(fmt.Sprintf("keeper2 key %d", i)))
		sk, err := scheme.KeyGen(sd[:])
		if err != nil {
			vh.Fatal("bls keygen: %v", err)
		}
		pk, err := sk.GetG1()
		if err != nil {
			vh.Fatal("bls g1: %v", err)
		}
		keys = append(keys, pk)
	}
}

func openFake(args ...interface{}) (massdb.MassDB, error) {
	if len(args) != 1 {
		return nil, massdb.ErrInvalidDBArgs
	}
	file, ok := args[0].(string)
	if !ok {
		return nil, massdb.ErrInvalidDBArgs
	}
	if _, err := os.Stat(file); err != nil {
		return nil, massdb.ErrDBDoesNotExist
	}
	var n int
	fmt.Sscanf(filepath.Base(file), "plot%d.plot", &n)
	return &fakeDB{file: file, id: sha256.Sum256([]byte(file)),
		info: &chiapos.PlotInfo{PoolPublicKey: keys[0], FarmerPublicKey: keys[1], PlotPublicKey: keys[2+n%6]}}, nil
}

const callTimeout = 8 * time.Second

var allFlags = []engine.WorkSpaceStateFlags{engine.SFRegistered, engine.SFPlotting, engine.SFReady, engine.SFMining}
var flagNames = map[string]engine.WorkSpaceStateFlags{"registered": engine.SFRegistered, "plotting": engine.SFPlotting, "ready": engine.SFReady, "mining": engine.SFMining}
var actNames = map[string]engine.ActionType{"Plot": engine.Plot, "Mine": engine.Mine, "Stop": engine.Stop, "Remove": engine.Remove, "Delete": engine.Delete}

func call(f func() error) (string, string) {
	ch := make(chan error, 1)
	pch := make(chan interface{}, 1)
	go func() {
		defer func() {
			if r := recover(); r != nil {
				pch <- r
			}
		}()
		ch <- f()
	}()
	select {
	case err := <-ch:
		if err != nil {
			return "err", err.Error()
		}
		return "ok", ""
	case r := <-pch:
		return "panic", fmt.Sprint(r)
	case <-time.After(callTimeout):
		return "hang", ""
	}
}

type drv struct {
	sk    spacekeeper.SpaceKeeper
	sids  map[string]string
	names map[string]string
}

func (d *drv) w(sid string) string {
	if n, ok := d.names[sid]; ok {
		return n
	}
	return "?" + sid
}

func (d *drv) project(ev vh.Event) {
	ev["v2"] = true
	st := map[string]string{}
	infos, err := d.sk.WorkSpaceInfos(engine.SFAll)
	if err != nil {
		ev["qerr"] = err.Error()
	}
	list := []string{}
	for _, in := range infos {
		st[d.w(in.SpaceID)] = in.State.String()
		list = append(list, d.w(in.SpaceID))
	}
	ev["st"], ev["list"] = st, list
	fq := map[string][]string{}
	agree := true
	for mask := 1; mask < 16; mask++ {
		var fl engine.WorkSpaceStateFlags
		name := ""
		for i, f := range allFlags {
			if mask&(1<<uint(i)) != 0 {
				fl |= f
				name += string("rpdm"[i])
			}
		}
		ids, _ := d.sk.WorkSpaceIDs(fl)
		inf, _ := d.sk.WorkSpaceInfos(fl)
		a, b := []string{}, []string{}
		for _, id := range ids {
			a = append(a, d.w(id))
		}
		for _, in := range inf {
			b = append(b, d.w(in.SpaceID))
			if !fl.Contains(in.State.Flag()) {
				agree = false
			}
		}
		sort.Strings(a)
		sort.Strings(b)
		if fmt.Sprint(a) != fmt.Sprint(b) {
			agree = false
		}
		fq[name] = a
	}
	ev["fq"], ev["agree"] = fq, agree
	if d.sk.Started() {
		ctx, cancel := context.WithTimeout(context.Background(), 2*time.Second)
		qs, err := d.sk.GetQualities(ctx, engine.SFMining, pocutil.Hash{})
		cancel()
		off := []string{}
		if err == nil {
			for _, q := range qs {
				off = append(off, d.w(q.SpaceID))
			}
		}
		sort.Strings(off)
		ev["offered"] = off
	}
	ev["running"] = d.sk.Started()
}

func run(sc vh.Scenario, dir string, rec *vh.Rec) {
	for i := range massdb.DBBackendList {
		if massdb.DBBackendList[i].Typ == "chiapos" {
			massdb.DBBackendList[i].OpenDB = openFake
		}
	}
	n := 3
	if v, ok := sc.Opt["spaces"].(float64); ok {
		n = int(v)
	}
	pdir := filepath.Join(dir, "plots")
	os.MkdirAll(pdir, 0o755)
	for i := 0; i < n; i++ {
		os.WriteFile(filepath.Join(pdir, fmt.Sprintf("plot%d.plot", i)), []byte("scripted"), 0o644)
	}
	ski, err := spacekeeper.NewSpaceKeeper("chiapos", &config.Config{Miner: &config.Miner{ProofDir: []string{pdir}}})
	if err != nil {
		rec.Dead, rec.Note = true, "NewSpaceKeeper(chiapos): "+err.Error()
		return
	}
	d := &drv{sk: ski, sids: map[string]string{}, names: map[string]string{}}
	ids, _ := ski.WorkSpaceIDs(engine.SFAll)
	if len(ids) != n {
		rec.Dead, rec.Note = true, fmt.Sprintf("%d plot files, %d workspaces", n, len(ids))
		return
	}
	order := []string{}
	for i, id := range ids {
		w := fmt.Sprintf("w%d", i+1)
		d.sids[w], d.names[id] = id, w
		order = append(order, w)
	}
	ev0 := vh.Event{"a": "Init", "order": order}
	d.project(ev0)
	rec.Emit(ev0)
	if mode, _ := sc.Opt["mode"].(string); mode == "conc" {
		d.concurrent(sc, rec)
		rec.DoneAndExit(9)
	}
	for i, st := range sc.Steps {
		a := st.A()
		if a == "P" || a == "PlotEnd" || a == "Init" {
			continue // chia spaces are never plotted here
		}
		if a == "Start" && ski.Started() || a == "StopKeeper" && !ski.Started() {
			continue
		}
		ev := vh.Event{"step": i + 1}
		for k, v := range st {
			ev[k] = v
		}
		rec.Begin(ev)
		switch a {
		case "Act":
			res, msg := call(func() error { return ski.ActOnWorkSpace(d.sids[st.Str("w")], actNames[st.Str("act")]) })
			ev["res"] = res
			if msg != "" {
				ev["err"] = msg
			}
		case "Bulk":
			var fl engine.WorkSpaceStateFlags
			for _, f := range vh.StrSeq(st["flags"]) {
				fl |= flagNames[f]
			}
			var errs map[string]error
			res, msg := call(func() error {
				var err error
				errs, err = ski.ActOnWorkSpaces(fl, actNames[st.Str("act")])
				return err
			})
			ev["res"] = res
			if msg != "" {
				ev["err"] = msg
			}
			rs := [][]string{}
			for sid, e := range errs {
				r := "ok"
				if e != nil {
					r = "err"
				}
				rs = append(rs, []string{d.w(sid), r})
			}
			sort.Slice(rs, func(i, j int) bool { return rs[i][0] < rs[j][0] })
			ev["results"] = rs
		case "Start":
			res, msg := call(func() error { return ski.Start() })
			ev["res"] = res
			if msg != "" {
				ev["err"] = msg
			}
		case "StopKeeper":
			res, msg := call(func() error { return ski.Stop() })
			ev["res"] = res
			if msg != "" {
				ev["err"] = msg
			}
		default:
			ev["res"] = "unknown-action"
		}
		if ev["res"] != "hang" && ev["res"] != "panic" {
			pe := vh.Event{}
			done := make(chan struct{})
			go func() { defer close(done); d.project(pe) }()
			select {
			case <-done:
				for k, v := range pe {
					ev[k] = v
				}
			case <-time.After(callTimeout):
				ev["res"], ev["proj"] = "hang", "queries after this step never returned"
			}
		}
		rec.Emit(ev)
		if ev["res"] == "hang" || ev["res"] == "panic" {
			rec.Note = "wedged at step " + fmt.Sprint(i+1)
			rec.DoneAndExit(7)
		}
	}
	if ski.Started() {
		if r, _ := call(func() error { return ski.Stop() }); r != "ok" {
			rec.DoneAndExit(8)
		}
	}
}

func (d *drv) concurrent(sc vh.Scenario, rec *vh.Rec) {
	sk := d.sk
	ev := vh.Event{"step": 1, "a": "Conc"}
	rec.Begin(ev)
	threads, _ := sc.Opt["threads"].([]interface{})
	var wg sync.WaitGroup
	results := make(chan string, 4096)
	sk.Start()
	for ti, t := range threads {
		ops, _ := t.([]interface{})
		wg.Add(1)
		go func(ti int, ops []interface{}) {
			defer wg.Done()
			for _, o := range ops {
				st := vh.Step(o.(map[string]interface{}))
				r, msg := call(func() error {
					var fl engine.WorkSpaceStateFlags
					for _, f := range vh.StrSeq(st["flags"]) {
						fl |= flagNames[f]
					}
					switch st.A() {
					case "Act":
						return sk.ActOnWorkSpace(d.sids[st.Str("w")], actNames[st.Str("act")])
					case "Bulk":
						_, err := sk.ActOnWorkSpaces(fl, actNames[st.Str("act")])
						return err
					case "Query":
						if _, err := sk.WorkSpaceIDs(fl); err != nil {
							return err
						}
						_, err := sk.WorkSpaceInfos(fl)
						return err
					case "StartK":
						sk.Start()
					case "StopK":
						sk.Stop()
					case "Proofs":
						ctx, cancel := context.WithTimeout(context.Background(), 2*time.Second)
						defer cancel()
						_, err := sk.GetQualities(ctx, engine.SFMining, pocutil.Hash{})
						return err
					case "Reader":
						ctx, cancel := context.WithTimeout(context.Background(), time.Duration(st.Int("ms"))*time.Millisecond)
						defer cancel()
						rd, err := sk.GetQualitiesReader(ctx, fl, pocutil.Hash{})
						if err != nil {
							return nil
						}
						for {
							if _, e := rd.Read(); e != nil {
								return nil
							}
						}
					}
					return nil
				})
				if r == "hang" || r == "panic" {
					results <- fmt.Sprintf("thread %d %s(%v): %s %s", ti+1, st.A(), map[string]interface{}(st), r, msg)
					return
				}
			}
		}(ti, ops)
	}
	done := make(chan struct{})
	go func() { wg.Wait(); close(done) }()
	res := "ok"
	select {
	case <-done:
	case <-time.After(3 * callTimeout):
		res = "hang"
	}
	close(results)
	bad := []string{}
	for r := range results {
		bad = append(bad, r)
		if strings.Contains(r, "panic") {
			res = "panic"
		} else if res == "ok" {
			res = "hang"
		}
	}
	if res == "ok" {
		if r, _ := call(func() error {
			if sk.Started() {
				return sk.Stop()
			}
			return nil
		}); r != "ok" {
			res, bad = r, append(bad, "stopping the keeper: "+r)
		}
	}
	if res == "ok" {
		if r, _ := call(func() error { _, err := sk.WorkSpaceInfos(engine.SFAll); return err }); r == "hang" || r == "panic" {
			res, bad = r, append(bad, "query after stop: "+r)
		}
	}
	ev["res"], ev["bad"] = res, bad
	rec.Emit(ev)
}

func main() {
	flag.Parse()
	logging.Init(os.TempDir(), "keeper2drv", "fatal", 1, true)
	mkKeys()
	vh.Main(run)
}
