package main

import (
	"fmt"
	"sort"
	"strings"

	"massnet.org/mass/config"

	"verifharness/vh"
)

// proofListOne concretises one case of specs/ProofList.tla (a list of item classes) and runs config.DecodeProofList.
func proofListOne(r interface{ Intn(int) int }, items []interface{}) vh.Event {
	parts := []string{}
	for _, it := range items {
		m := it.(map[string]interface{})
		s := ""
		switch m["k"] {
		case "ok":
			s = fmt.Sprintf("%d:%d", int(m["bl"].(float64)), int(m["n"].(float64)))
			if m["sp"] == "spaces" {
				s = fmt.Sprintf(" %d : %d ", int(m["bl"].(float64)), int(m["n"].(float64)))
			}
		case "nocolon":
			s = []string{"24", "2403", "24;3"}[r.Intn(3)]
		case "twocolons":
			s = []string{"24:3:1", "24::3", ":24:3"}[r.Intn(3)]
		case "empty":
			s = ""
		case "oddbl":
			s = fmt.Sprintf("%d:1", 25+2*r.Intn(7))
		case "smallbl":
			s = fmt.Sprintf("%d:1", []int{0, 1, 8, 22, 23}[r.Intn(5)])
		case "bigbl":
			s = fmt.Sprintf("%d:1", []int{41, 42, 64, 1 << 20}[r.Intn(4)])
		case "wordbl":
			s = []string{"bl:1", "2x:1", "0x18:1", "24.0:1"}[r.Intn(4)]
		case "negbl":
			s = "-24:1"
		case "negcount":
			s = fmt.Sprintf("24:-%d", 1+r.Intn(9))
		case "wordcount":
			s = []string{"24:x", "24:1x", "24:0x1"}[r.Intn(3)]
		case "hugecount":
			s = "24:99999999999999999999"
		case "floatcount":
			s = []string{"24:1.5", "24:1e3"}[r.Intn(2)]
		case "emptycount":
			s = "24:"
		}
		parts = append(parts, s)
	}
	in := strings.Join(parts, ",")
	ev := vh.Event{"a": "ProofList", "input": in, "pairs": [][]int{}}
	func() {
		defer func() {
			if p := recover(); p != nil {
				ev["ok"], ev["panic"] = false, fmt.Sprint(p)
			}
		}()
		m, err := config.DecodeProofList(in)
		ev["ok"] = err == nil
		if err == nil {
			ps := [][]int{}
			for b, n := range m {
				ps = append(ps, []int{b, n})
			}
			sort.Slice(ps, func(i, j int) bool { return ps[i][0] < ps[j][0] })
			ev["pairs"] = ps
		}
	}()
	return ev
}
