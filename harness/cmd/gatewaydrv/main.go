// gatewaydrv runs every abstract case of specs/Gateway.tla on the real api package: access control of the HTTP
// gateway (through the real accessControlHandler with an httptest recorder), amount rendering / parsing, and the
// address and binding target listed for a workspace (compared with the chain library).
package main

import (
	"encoding/hex"
	"flag"
	"fmt"
	"io/ioutil"
	"net"
	"net/http"
	"net/http/httptest"
	"strconv"
	"strings"
	"time"

	"github.com/massnetorg/mass-core/massutil"
	"github.com/massnetorg/mass-core/poc/chiapos"
	"github.com/massnetorg/mass-core/poc/pocutil"
	"github.com/massnetorg/mass-core/pocec"

	"massnet.org/mass/api"
	"massnet.org/mass/config"
	"massnet.org/mass/poc/engine"
	engine_v2 "massnet.org/mass/poc/engine.v2"
	"massnet.org/mass/poc/wallet/keystore"

	"verifharness/vh"
)

type gen struct {
	r     interface{ Intn(int) int }
	r2    interface{ Shuffle(int, func(int, int)) }
	wl4   [4]byte
	wl6   string
	wl6nb string
	keys  map[string]*pocec.PrivateKey
	plots map[string]pocutil.Hash
	g1    *chiapos.G1Element
}

func (g *gen) port() int { return 1024 + g.r.Intn(60000) }

func lanAddr(g *gen, l, p string) string {
	var ip string
	switch l + p {
	case "10first":
		ip = "10.0.0.0"
	case "10last":
		ip = "10.255.255.255"
	case "10inside", "10mapped":
		ip = fmt.Sprintf("10.%d.%d.%d", g.r.Intn(256), g.r.Intn(256), g.r.Intn(256))
	case "10below":
		ip = "9.255.255.255"
	case "10above":
		ip = "11.0.0.0"
	case "172first":
		ip = "172.16.0.0"
	case "172last":
		ip = "172.31.255.255"
	case "172inside", "172mapped":
		ip = fmt.Sprintf("172.%d.%d.%d", 16+g.r.Intn(16), g.r.Intn(256), g.r.Intn(256))
	case "172below":
		ip = "172.15.255.255"
	case "172above":
		ip = "172.32.0.0"
	case "192first":
		ip = "192.168.0.0"
	case "192last":
		ip = "192.168.255.255"
	case "192inside", "192mapped":
		ip = fmt.Sprintf("192.168.%d.%d", g.r.Intn(256), g.r.Intn(256))
	case "192below":
		ip = "192.167.255.255"
	case "192above":
		ip = "192.169.0.0"
	}
	if p == "mapped" {
		return fmt.Sprintf("[::ffff:%s]:%d", ip, g.port())
	}
	return fmt.Sprintf("%s:%d", ip, g.port())
}

func (g *gen) remote(class string) string {
	w := g.wl4
	switch class {
	case "lo4":
		return fmt.Sprintf("127.0.0.1:%d", g.port())
	case "lo6":
		return fmt.Sprintf("[::1]:%d", g.port())
	case "lo4mapped":
		return fmt.Sprintf("[::ffff:127.0.0.1]:%d", g.port())
	case "lo4other":
		return fmt.Sprintf("127.0.0.%d:%d", 2+g.r.Intn(250), g.port())
	case "wl4exact":
		return fmt.Sprintf("%d.%d.%d.%d:%d", w[0], w[1], w[2], w[3], g.port())
	case "wl4mapped":
		return fmt.Sprintf("[::ffff:%d.%d.%d.%d]:%d", w[0], w[1], w[2], w[3], g.port())
	case "wl4neighbor":
		return fmt.Sprintf("%d.%d.%d.%d:%d", w[0], w[1], w[2], w[3]^1, g.port())
	case "wl6exact":
		return fmt.Sprintf("[%s]:%d", g.wl6, g.port())
	case "wl6neighbor":
		return fmt.Sprintf("[%s]:%d", g.wl6nb, g.port())
	case "public4":
		return fmt.Sprintf("%d.%d.%d.%d:%d", 193+g.r.Intn(20), g.r.Intn(256), g.r.Intn(256), 1+g.r.Intn(250), g.port())
	case "public6":
		return fmt.Sprintf("[2001:db8:%x::%x]:%d", 1+g.r.Intn(60000), 1+g.r.Intn(60000), g.port())
	case "hostless":
		return fmt.Sprintf(":%d", g.port())
	case "noport":
		return "203.0.113.9"
	case "emptyaddr":
		return ""
	case "garbage":
		return []string{"1.2.3.4:99999", "[::1", "1.2.3.4:", "[1.2.3.4]:80x", "256.1.1.1.1:80:80"}[g.r.Intn(5)]
	}
	if strings.HasPrefix(class, "lan") {
		for _, l := range []string{"10", "172", "192"} {
			if strings.HasPrefix(class[3:], l) {
				return lanAddr(g, l, class[3+len(l):])
			}
		}
	}
	return "?"
}

func (g *gen) admit(fr map[string]interface{}, ev vh.Event) {
	wl := []string{}
	for _, x := range vh.StrSeq(fr["wl"]) {
		if x == "v4" {
			wl = append(wl, fmt.Sprintf("%d.%d.%d.%d", g.wl4[0], g.wl4[1], g.wl4[2], g.wl4[3]))
		} else {
			wl = append(wl, g.wl6)
		}
	}
	if b, _ := fr["wildcard"].(bool); b {
		wl = append(wl, "*")
	}
	lans := vh.StrSeq(fr["lans"])
	switch fr["junk"] {
	case "wl":
		junk := []string{"10.1.2.300", "192.168.1.0/24", "localhost", "", "::g", " 127.0.0.1", "0.0.0.0/0", "any"}
		wl = append(wl, junk[g.r.Intn(len(junk))])
		g.r2.Shuffle(len(wl), func(i, j int) { wl[i], wl[j] = wl[j], wl[i] })
	case "lan":
		junk := []string{"11", "lan", "", "10.0.0.0/8", "172.16", "*", "0", "all"}
		lans = append(lans, junk[g.r.Intn(len(junk))])
		g.r2.Shuffle(len(lans), func(i, j int) { lans[i], lans[j] = lans[j], lans[i] })
	}
	ev["wlcfg"], ev["lancfg"] = wl, lans
	fn, err := api.VerifAccessControlFunc(wl, lans)
	if err != nil {
		ev["cfgerr"] = err.Error()
		return
	}
	remote := g.remote(fr["addr"].(string))
	ev["remote"] = remote
	called := false
	h := api.VerifAccessControlHandler(http.HandlerFunc(func(w http.ResponseWriter, r *http.Request) {
		called = true
		w.WriteHeader(200)
	}), fn)
	req := httptest.NewRequest("GET", "/v1/spaces", nil)
	req.RemoteAddr = remote
	rr := httptest.NewRecorder()
	h.ServeHTTP(rr, req)
	ev["handler"], ev["status"] = called, rr.Code
	ev["served"] = called && rr.Code == 200
	ev["allowfn"] = fn(remote)
}

func (g *gen) render(fr map[string]interface{}, ev vh.Event) {
	mass := int64(fr["mass"].(float64))
	mw := int64(fr["mw"].(float64))
	amt := mass*100000000 + mw
	if b, _ := fr["neg"].(bool); b {
		amt = -amt
		if amt == 0 {
			amt = -1
		}
	}
	ev["amount"] = fmt.Sprint(amt)
	s, err := api.AmountToString(amt)
	ev["ok"] = err == nil
	ev["text"], ev["back"] = s, false
	if err == nil {
		a2, err2 := api.StringToAmount(s)
		ev["back"] = err2 == nil && a2.IntValue() == amt
	}
}

func (g *gen) target(fr map[string]interface{}, ev vh.Event) {
	key := fr["key"].(string)
	size := int(fr["size"].(float64))
	ev["targetok"], ev["addrok"], ev["fieldsok"] = false, false, false
	if fr["api"] == "v1" {
		pk := g.keys[key].PubKey()
		sid := fmt.Sprintf("%x-%d", pk.SerializeCompressed(), size)
		ws, err := api.VerifWorkSpace(engine.WorkSpaceInfo{SpaceID: sid, PublicKey: pk, Ordinal: 3, BitLength: size, State: engine.Ready, Progress: 100})
		if err != nil {
			ev["err"] = err.Error()
			return
		}
		want, _ := massutil.GetMassDBBindingTarget(pk, size)
		// the same key listed with another size in between, then again with this size (a listing must not depend on
		// what was listed before)
		other := 24 + 2*((size/2+3)%9)
		if wo, err := api.VerifWorkSpace(engine.WorkSpaceInfo{SpaceID: sid, PublicKey: pk, Ordinal: 3, BitLength: other, State: engine.Ready}); err == nil {
			wantO, _ := massutil.GetMassDBBindingTarget(pk, other)
			if wo.BindingTarget != wantO {
				ev["err"] = fmt.Sprintf("same key listed with size %d after size %d: target %s, chain library %s", other, size, wo.BindingTarget, wantO)
				ev["target"], ev["want"] = wo.BindingTarget, wantO
				return
			}
		}
		if w2, err := api.VerifWorkSpace(engine.WorkSpaceInfo{SpaceID: sid, PublicKey: pk, Ordinal: 3, BitLength: size, State: engine.Ready, Progress: 100}); err == nil {
			ws = w2
		}
		_, addr, _ := keystore.NewPoCAddress(pk, config.ChainParams)
		lib, _ := massutil.NewAddressPubKeyHash(massutil.Hash160(pk.SerializeCompressed()), config.ChainParams)
		ev["target"], ev["want"] = ws.BindingTarget, want
		ev["targetok"] = ws.BindingTarget == want && want != ""
		ev["addrok"] = ws.Address == addr.EncodeAddress() && ws.Address == lib.EncodeAddress()
		ev["fieldsok"] = ws.SpaceId == sid && int(ws.BitLength) == size && ws.PublicKey == hex.EncodeToString(pk.SerializeCompressed()) && ws.State == "ready" && ws.Ordinal == 3
	} else {
		plot := g.plots[key]
		ws, err := api.VerifWorkSpaceV2(engine_v2.WorkSpaceInfo{SpaceID: plot.String(), PlotID: plot, PublicKey: g.g1, BitLength: size})
		if err != nil {
			ev["err"] = err.Error()
			return
		}
		want, _ := massutil.GetChiaPlotBindingTarget(plot, size)
		other := 32 + (size+1)%4
		if wo, err := api.VerifWorkSpaceV2(engine_v2.WorkSpaceInfo{SpaceID: plot.String(), PlotID: plot, PublicKey: g.g1, BitLength: other}); err == nil {
			wantO, _ := massutil.GetChiaPlotBindingTarget(plot, other)
			if wo.BindingTarget != wantO {
				ev["err"] = fmt.Sprintf("same plot listed with k %d after k %d: target %s, chain library %s", other, size, wo.BindingTarget, wantO)
				return
			}
		}
		if w2, err := api.VerifWorkSpaceV2(engine_v2.WorkSpaceInfo{SpaceID: plot.String(), PlotID: plot, PublicKey: g.g1, BitLength: size}); err == nil {
			ws = w2
		}
		ev["target"], ev["want"] = ws.BindingTarget, want
		ev["targetok"] = ws.BindingTarget == want && want != ""
		ev["addrok"] = true
		ev["fieldsok"] = ws.PlotId == plot.String() && int(ws.K) == size
	}
}

func run(sc vh.Scenario, dir string, rec *vh.Rec) {
	r := vh.Rng(sc.Seed)
	g := &gen{r: r, r2: r, keys: map[string]*pocec.PrivateKey{}, plots: map[string]pocutil.Hash{}}
	g.wl4 = [4]byte{byte(193 + r.Intn(20)), byte(r.Intn(256)), byte(r.Intn(256)), byte(2 + r.Intn(250))}
	g.wl6 = fmt.Sprintf("2001:db8:%x::%x", 1+r.Intn(60000), 2+r.Intn(60000))
	g.wl6nb = fmt.Sprintf("2001:db8:%x::%x", 1+r.Intn(60000), 2+r.Intn(60000))
	for _, k := range []string{"k1", "k2", "k3"} {
		b := make([]byte, 32)
		r.Read(b)
		g.keys[k], _ = pocec.PrivKeyFromBytes(pocec.S256(), b)
		var h pocutil.Hash
		r.Read(h[:])
		g.plots[k] = h
	}
	g.g1 = chiapos.NewG1ElementGenerator()
	reps := 1
	if v, ok := sc.Opt["reps"].(float64); ok {
		reps = int(v)
	}
	for _, st := range sc.Steps {
		if st.A() == "ProofList" {
			items, _ := st["frame"].([]interface{})
			for k := 0; k < reps; k++ {
				rec.Begin(vh.Event{"a": "ProofList", "frame": items})
				ev := proofListOne(r, items)
				ev["frame"] = items
				rec.Emit(ev)
			}
			continue
		}
		fr, _ := st["frame"].(map[string]interface{})
		for k := 0; k < reps; k++ {
			ev := vh.Event{"a": "Case", "frame": fr}
			rec.Begin(ev)
			func() {
				defer func() {
					if p := recover(); p != nil {
						ev["panic"] = fmt.Sprint(p)
					}
				}()
				switch fr["kind"] {
				case "admit":
					g.admit(fr, ev)
				case "render":
					g.render(fr, ev)
				case "target":
					g.target(fr, ev)
				case "listen":
					g.listen(fr, ev)
				}
			}()
			rec.Emit(ev)
		}
	}
}

// listen: start the real gRPC server (api.NewServer + Start) on a free port and read from the kernel's socket table
// where it listens.
func (g *gen) listen(fr map[string]interface{}, ev vh.Event) {
	var port int
	var srv *api.Server
	for try := 0; try < 8; try++ {
		l, err := net.Listen("tcp", "127.0.0.1:0")
		if err != nil {
			ev["started"] = false
			ev["err"] = err.Error()
			return
		}
		port = l.Addr().(*net.TCPAddr).Port
		l.Close()
		s, err := api.NewServer(&config.API{PortGRPC: uint16(port)}, nil, nil, nil, nil, nil, nil, nil, nil, 0, nil)
		if err != nil {
			ev["started"] = false
			ev["err"] = err.Error()
			return
		}
		if err = s.Start(); err == nil {
			srv = s
			break
		}
		ev["err"] = err.Error()
	}
	if srv == nil {
		ev["started"] = false
		return
	}
	delete(ev, "err")
	defer srv.Stop()
	ev["started"], ev["port"] = true, port
	bound := []string{}
	for _, f := range []string{"/proc/net/tcp", "/proc/net/tcp6"} {
		b, err := ioutil.ReadFile(f)
		if err != nil {
			continue
		}
		for _, line := range strings.Split(string(b), "\n")[1:] {
			fs := strings.Fields(line)
			if len(fs) < 4 || fs[3] != "0A" { // 0A = LISTEN
				continue
			}
			hp := strings.Split(fs[1], ":")
			if len(hp) != 2 {
				continue
			}
			if p, err := strconv.ParseInt(hp[1], 16, 32); err != nil || int(p) != port {
				continue
			}
			switch hp[0] {
			case "0100007F":
				bound = append(bound, "lo4")
			case "00000000":
				bound = append(bound, "any4")
			case "00000000000000000000000000000000":
				bound = append(bound, "any6")
			case "00000000000000000000000001000000":
				bound = append(bound, "lo6")
			default:
				bound = append(bound, "other:"+hp[0])
			}
		}
	}
	ev["bound"] = bound
	c, err := net.DialTimeout("tcp", fmt.Sprintf("127.0.0.1:%d", port), 2*time.Second)
	ev["dial"] = err == nil
	if err == nil {
		c.Close()
	}
}

func main() {
	flag.Parse()
	vh.Main(run)
}
