// walletdrv replays TLC-generated behaviours of specs/Wallet.tla against the real keystore manager
// (poc/wallet/keystore on a real LevelDB store) and records, after every call: the result, the state of
// the running instance projected through the public API, the state of a second instance opened on a copy
// of the store ("as if restarted now"), which passphrases open / unlock that copy, which secret material
// the running instance holds in memory (verif-tagged accessor), whether any secret occurs in clear in the
// store files, the exported files or the log, and which issued keys sign verifiably.
package main

import (
	"bytes"
	"context"
	"crypto/sha256"
	"encoding/base64"
	"encoding/hex"
	"encoding/json"
	"flag"
	"fmt"
	"io/ioutil"
	"os"
	"path/filepath"
	"sort"
	"strings"
	"sync"
	"time"

	"github.com/massnetorg/mass-core/pocec"
	"github.com/massnetorg/mass-core/wire"
	"github.com/syndtr/goleveldb/leveldb"
	"github.com/syndtr/goleveldb/leveldb/opt"

	"github.com/golang/protobuf/ptypes/empty"
	coreconfig "github.com/massnetorg/mass-core/config"
	"github.com/massnetorg/mass-core/massutil"

	"massnet.org/mass/api"
	pb "massnet.org/mass/api/proto"
	"massnet.org/mass/config"
	pocwallet "massnet.org/mass/poc/wallet"
	"massnet.org/mass/poc/wallet/db"
	ldb "massnet.org/mass/poc/wallet/db/ldb"
	"massnet.org/mass/poc/wallet/keystore"
	"massnet.org/mass/poc/wallet/keystore/hdkeychain"

	"verifharness/vh"
)

var fast = keystore.ScryptOptions{N: 16, R: 8, P: 1}

// idleMiner: the PoC miner as api.Server's wallet handlers see it (LockWallet is refused while it runs): never started
type idleMiner struct{}

func (idleMiner) Start() error                                { return nil }
func (idleMiner) Stop() error                                 { return nil }
func (idleMiner) Started() bool                               { return false }
func (idleMiner) Type() string                                { return "scripted" }
func (idleMiner) SetPayoutAddresses([]massutil.Address) error { return nil }

var allPass = []string{"p1", "p2", "p3", "q1", "q2", "bad"}

type wallet struct {
	name  string
	dir   string
	store db.DB
	fdb   *faultDB
	mgr   *keystore.KeystoreManagerForPoC
	pub   string // abstract name of the public passphrase last used successfully
	priv  []byte // private passphrase that last succeeded on this wallet (for near-miss arguments)
}

type drv struct {
	sc         vh.Scenario
	dir        string
	seeds      map[string][]byte
	pass       map[string][]byte
	remarks    map[string]string
	absRem     map[string]string
	wallets    map[string]*wallet
	wnames     []string
	idToSeed   map[string]string
	seedToID   map[string]string
	keyTab     map[string]string // seed/branch/index -> pubkey hex
	pkTab      map[string]string // pubkey hex -> seed/branch/index
	files      map[string][]byte
	fileSeed   map[string]string
	tampered   map[string]bool
	tamperFld  map[string]string
	keyok      bool
	keynote    string
	needles    [][]byte // secrets known to the driver: seeds, passphrases, derived private keys
	logPath    string
	foreign    *pocec.PrivateKey
	walletOpen bool
	api        bool     // export / import / lock / unlock / passphrase changes go through the gRPC handlers (api/wallets.go)
	apiFiles   []string // files the export handler wrote
}

// viaAPI: the call goes through the handler.  The handlers refuse a passphrase whose length is outside 6..40 before the
// wallet sees it (the wallet has its own, finer validation and, without keystores, none at all): such calls go to the
// wallet directly, so that every recorded answer is the wallet's.
func (d *drv) viaAPI(ps ...[]byte) bool {
	if !d.api {
		return false
	}
	for _, p := range ps {
		if len(p) < api.LenPassMin || len(p) > api.LenPassMax {
			return false
		}
	}
	return true
}

// srv: the gRPC server over this wallet, as server.go wires it
func (d *drv) srv(w *wallet) *api.Server {
	return api.VerifServer(idleMiner{}, w.mgr, nil)
}

const passChars = "0123456789abcdefghijklmnopqrstuvwxyzABCDEFGHIJKLMNOPQRSTUVWXYZ@#$%^&"

func newDrv(sc vh.Scenario, dir string) *drv {
	r := vh.Rng(sc.Seed)
	d := &drv{sc: sc, dir: dir, seeds: map[string][]byte{}, pass: map[string][]byte{}, remarks: map[string]string{}, absRem: map[string]string{},
		wallets: map[string]*wallet{}, idToSeed: map[string]string{}, seedToID: map[string]string{}, keyTab: map[string]string{}, pkTab: map[string]string{},
		files: map[string][]byte{}, fileSeed: map[string]string{}, tampered: map[string]bool{}, tamperFld: map[string]string{}, keyok: true}
	for _, s := range []string{"s1", "s2", "s3"} {
		b := make([]byte, 32)
		r.Read(b)
		d.seeds[s] = b
	}
	d.seeds["badseed"] = make([]byte, 16+r.Intn(15))
	r.Read(d.seeds["badseed"])
	lens := []int{6, 40, 40, 40, 7 + r.Intn(30)} // the length bounds of validate.go are over-represented
	if r.Intn(2) == 0 {
		lens = []int{40, 40, 40, 40, 40} // every passphrase at the upper bound
	}
	r.Shuffle(len(lens), func(i, j int) { lens[i], lens[j] = lens[j], lens[i] })
	for i, p := range []string{"p1", "p2", "p3", "q1", "q2"} {
		for {
			b := make([]byte, lens[i])
			for j := range b {
				b[j] = passChars[r.Intn(len(passChars))]
			}
			dup := false
			for _, o := range d.pass {
				if bytes.Equal(o, b) {
					dup = true
				}
			}
			if !dup {
				d.pass[p] = b
				break
			}
		}
	}
	bads := [][]byte{[]byte("ab1@Z"), bytes.Repeat([]byte("aB3$"), 11)[:41], []byte("has space 1"), []byte("p\xc3\xa4ssw\xc3\xb6rd1"), []byte("tab\there12"), []byte("semi;colon1")}
	d.pass["bad"] = bads[r.Intn(len(bads))]
	d.pass[""] = []byte{}
	rem := []string{"remark-one", "r", "备注 with unicode ✓", strings.Repeat("long remark ", 20), "0x00", "{\"json\":true}"}
	r.Shuffle(len(rem), func(i, j int) { rem[i], rem[j] = rem[j], rem[i] })
	d.remarks[""], d.remarks["r1"], d.remarks["r2"] = "", rem[0], rem[1]
	for k, v := range d.remarks {
		d.absRem[v] = k
	}
	fk := make([]byte, 32)
	r.Read(fk)
	d.foreign, _ = pocec.PrivKeyFromBytes(pocec.S256(), fk)
	d.logPath = os.Getenv("VH_CHILD_LOG")
	d.buildNeedles()
	return d
}

// every secret the driver itself knows: seeds, passphrases and the private keys BIP32 derives from the seeds
func (d *drv) buildNeedles() {
	add := func(b []byte) {
		if len(b) >= 6 {
			d.needles = append(d.needles, append([]byte{}, b...))
		}
	}
	for n, s := range d.seeds {
		if n == "badseed" {
			continue
		}
		add(s)
		m, err := hdkeychain.NewMaster(s, config.ChainParams)
		if err != nil {
			continue
		}
		path := []uint32{44 + hdkeychain.HardenedKeyStart, config.ChainParams.HDCoinType + hdkeychain.HardenedKeyStart, 0 + hdkeychain.HardenedKeyStart}
		k := m
		keys := []*hdkeychain.ExtendedKey{m}
		for _, i := range path {
			c, err := k.Child(i)
			if err != nil {
				break
			}
			keys = append(keys, c)
			k = c
		}
		if len(keys) == 4 {
			for b := uint32(0); b < 2; b++ {
				br, err := k.Child(b)
				if err != nil {
					continue
				}
				keys = append(keys, br)
				for i := uint32(0); i < 6; i++ {
					if c, err := br.Child(i); err == nil {
						keys = append(keys, c)
					}
				}
			}
		}
		for _, e := range keys {
			add([]byte(e.String()))
			if pk, err := e.ECPrivKey(); err == nil {
				add(pk.Serialize())
			}
		}
	}
	for n, p := range d.pass {
		if n != "" {
			add(p)
		}
	}
}

func encodings(n []byte) [][]byte {
	out := [][]byte{n}
	h := hex.EncodeToString(n)
	out = append(out, []byte(h), []byte(strings.ToUpper(h)))
	out = append(out, []byte(base64.StdEncoding.EncodeToString(n)))
	out = append(out, []byte(base58(n)))
	return out
}

const b58 = "123456789ABCDEFGHJKLMNPQRSTUVWXYZabcdefghijkmnopqrstuvwxyz"

func base58(b []byte) string {
	// plain big-endian base58 (no checksum)
	zeros := 0
	for zeros < len(b) && b[zeros] == 0 {
		zeros++
	}
	num := append([]byte{}, b...)
	var out []byte
	for len(num) > 0 {
		rem := 0
		var q []byte
		for _, x := range num {
			acc := rem*256 + int(x)
			dgt := acc / 58
			rem = acc % 58
			if len(q) > 0 || dgt > 0 {
				q = append(q, byte(dgt))
			}
		}
		out = append(out, b58[rem])
		num = q
	}
	for i := 0; i < zeros; i++ {
		out = append(out, '1')
	}
	for i, j := 0, len(out)-1; i < j; i, j = i+1, j-1 {
		out[i], out[j] = out[j], out[i]
	}
	return string(out)
}

// cand concretises a passphrase argument that is checked against the current one.  The abstract value "bad"
// (never equal to the current passphrase) is made a near miss of the current passphrase half of the time.
func (d *drv) cand(w *wallet, name string, r interface{ Intn(int) int }) []byte {
	if name != "bad" || w == nil || len(w.priv) == 0 || r.Intn(4) == 0 {
		return d.pass[name]
	}
	cur := w.priv
	if len(cur) == 40 && r.Intn(4) != 0 {
		// the longest admissible passphrase with something appended (not a well-formed passphrase any more)
		return append(append([]byte{}, cur...), passChars[r.Intn(len(passChars))])
	}
	switch r.Intn(6) {
	case 0, 4, 5:
		return append(append([]byte{}, cur...), 'x')
	case 1:
		return append([]byte{}, cur[:len(cur)-1]...)
	case 2:
		b := append([]byte{}, cur...)
		b[len(b)-1] ^= 1
		return b
	default:
		return append(append([]byte{}, cur...), cur...)
	}
}

func (d *drv) absPass(p []byte) string {
	for n, v := range d.pass {
		if bytes.Equal(v, p) {
			return n
		}
	}
	return "?"
}

func (d *drv) wal(name string) *wallet {
	w, ok := d.wallets[name]
	if !ok {
		w = &wallet{name: name, dir: filepath.Join(d.dir, name)}
		d.wallets[name] = w
		d.wnames = append(d.wnames, name)
		sort.Strings(d.wnames)
		// the store exists from the start (as after a first run of the node)
		s, err := db.CreateDB("leveldb", w.dir)
		if err == nil {
			s.Close()
		}
	}
	return w
}

func (d *drv) openWallet(w *wallet, q string) error {
	s, err := db.OpenDB("leveldb", w.dir)
	if err != nil {
		return err
	}
	f := &faultDB{DB: s}
	m, err := keystore.NewKeystoreManagerForPoC(f, d.pass[q], config.ChainParams)
	if err != nil {
		s.Close()
		return err
	}
	w.store, w.fdb, w.mgr, w.pub = s, f, m, q
	return nil
}

func (d *drv) closeWallet(w *wallet) {
	if w.store != nil {
		w.store.Close()
	}
	w.store, w.fdb, w.mgr = nil, nil, nil
}

func (d *drv) id(seed string) string {
	if id, ok := d.seedToID[seed]; ok {
		return id
	}
	return "ac1qnonexistent" + seed
}

func (d *drv) learnID(id, seed string) string {
	if s, ok := d.idToSeed[id]; ok {
		return s
	}
	if old, ok := d.seedToID[seed]; ok && old != id {
		d.keyok, d.keynote = false, fmt.Sprintf("seed %s gave keystore id %s and %s", seed, old, id)
		return "?" + id
	}
	d.idToSeed[id], d.seedToID[seed] = seed, id
	return seed
}

func (d *drv) absID(id string) string {
	if s, ok := d.idToSeed[id]; ok {
		return s
	}
	return "?" + id
}

func (d *drv) learnKey(seed string, branch, idx uint32, pk *pocec.PublicKey) {
	key := fmt.Sprintf("%s/%d/%d", seed, branch, idx)
	h := hex.EncodeToString(pk.SerializeCompressed())
	if old, ok := d.keyTab[key]; ok && old != h {
		d.keyok, d.keynote = false, "key "+key+" changed its public key"
	}
	if old, ok := d.pkTab[h]; ok && old != key {
		d.keyok, d.keynote = false, "public key shared by "+old+" and "+key
	}
	d.keyTab[key], d.pkTab[h] = h, key
}

func (d *drv) pubKey(seed string, b, i int) *pocec.PublicKey {
	if h, ok := d.keyTab[fmt.Sprintf("%s/%d/%d", seed, b, i)]; ok {
		raw, _ := hex.DecodeString(h)
		pk, err := pocec.ParsePubKey(raw, pocec.S256())
		if err == nil {
			return pk
		}
	}
	// a key this wallet never issued: derive what BIP32 would give, if we can; else a foreign key
	if s, ok := d.seeds[seed]; ok && seed != "badseed" {
		if m, err := hdkeychain.NewMaster(s, config.ChainParams); err == nil {
			k := m
			okp := true
			for _, x := range []uint32{44 + hdkeychain.HardenedKeyStart, config.ChainParams.HDCoinType + hdkeychain.HardenedKeyStart, hdkeychain.HardenedKeyStart, uint32(b), uint32(i)} {
				c, err := k.Child(x)
				if err != nil {
					okp = false
					break
				}
				k = c
			}
			if okp {
				if pk, err := k.ECPubKey(); err == nil {
					return pk
				}
			}
		}
	}
	return d.foreign.PubKey()
}

// ---------------------------------------------------------------------------------- projections

type ksProj struct {
	Remark string `json:"remark"`
	Ext    []int  `json:"ext"`
	Int    []int  `json:"int"`
}

// project reads the state of a manager through its public API
func (d *drv) project(m *keystore.KeystoreManagerForPoC) map[string]interface{} {
	ks := map[string]ksProj{}
	names := m.ListKeystoreNames()
	ams := m.GetManagedAddrManager()
	if len(names) != len(ams) {
		d.keyok, d.keynote = false, "ListKeystoreNames and GetManagedAddrManager disagree"
	}
	for _, am := range ams {
		seed := d.absID(am.Name())
		p := ksProj{Ext: []int{}, Int: []int{}}
		if r, ok := d.absRem[am.Remarks()]; ok {
			p.Remark = r
		} else {
			p.Remark = "?" + am.Remarks()
		}
		mas := am.ManagedAddresses()
		if len(mas) != len(am.ListAddresses()) {
			d.keyok, d.keynote = false, "ManagedAddresses and ListAddresses disagree"
		}
		for _, ma := range mas {
			ord, found := m.GetPublicKeyOrdinal(ma.PubKey())
			if !found {
				d.keyok, d.keynote = false, "listed address has no ordinal"
				continue
			}
			if a, err := m.GetAddressByPubKey(ma.PubKey()); err != nil || a != ma.String() {
				d.keyok, d.keynote = false, "GetAddressByPubKey disagrees with listing"
			}
			br := uint32(0)
			if ma.IsChangeAddr() {
				br = 1
				p.Int = append(p.Int, int(ord))
			} else {
				p.Ext = append(p.Ext, int(ord))
			}
			if !strings.HasPrefix(seed, "?") {
				d.learnKey(seed, br, ord, ma.PubKey())
			}
		}
		sort.Ints(p.Ext)
		sort.Ints(p.Int)
		ks[seed] = p
	}
	return map[string]interface{}{"ks": ks, "locked": m.IsLocked()}
}

// signable: which issued keys produce a signature that verifies under exactly that key
func (d *drv) signProj(m *keystore.KeystoreManagerForPoC, digest []byte) (ok [][]interface{}, bad []string) {
	ok, bad = [][]interface{}{}, []string{}
	var prev *pocec.PublicKey
	for _, am := range m.GetManagedAddrManager() {
		seed := d.absID(am.Name())
		for _, ma := range am.ManagedAddresses() {
			ord, _ := m.GetPublicKeyOrdinal(ma.PubKey())
			br := 0
			if ma.IsChangeAddr() {
				br = 1
			}
			sig, err := m.SignHash(ma.PubKey(), digest)
			msg := append([]byte("message for "), digest...)
			sig2, err2 := m.SignMessage(ma.PubKey(), msg)
			if (err == nil) != (err2 == nil) {
				bad = append(bad, fmt.Sprintf("%s/%d/%d: SignHash and SignMessage disagree", seed, br, ord))
			}
			if err != nil {
				continue
			}
			mh := wire.HashH(msg) // the digest the chain library defines for a message
			good := sig.Verify(digest, ma.PubKey())
			if err2 == nil && !sig2.Verify(mh[:], ma.PubKey()) {
				good = false
			}
			other := sha256.Sum256(digest)
			if sig.Verify(other[:], ma.PubKey()) {
				good = false
			}
			if prev != nil && !prev.IsEqual(ma.PubKey()) && sig.Verify(digest, prev) {
				good = false
			}
			prev = ma.PubKey()
			if good {
				ok = append(ok, []interface{}{seed, br, int(ord)})
			} else {
				bad = append(bad, fmt.Sprintf("%s/%d/%d: signature does not verify under the requested key", seed, br, ord))
			}
		}
	}
	return
}

func (d *drv) secrets(m *keystore.KeystoreManagerForPoC) (kinds []string, needles [][]byte) {
	kinds = []string{}
	_, sts := keystore.VerifState(m)
	seen := map[string]bool{}
	for _, st := range sts {
		for _, k := range st.Secrets {
			if !seen[k] {
				seen[k] = true
				kinds = append(kinds, k)
			}
		}
		needles = append(needles, st.Needles...)
	}
	sort.Strings(kinds)
	return
}

// reopenProj: copy the store, find the public passphrases that open the copy, project the reopened instance,
// find the private passphrases that unlock it, and ask it for the next index on every branch.
func (d *drv) reopenProj(w *wallet, n int) (map[string]interface{}, string) {
	// A copy of a live goleveldb directory can be torn in ways goleveldb still opens (a table dropped or a manifest
	// rotated between two file copies): a copy that no public passphrase opens although the running instance is
	// open is taken again.  A store that really cannot be reopened stays that way in every copy.
	var out map[string]interface{}
	var cp string
	for attempt := 0; attempt < 4; attempt++ {
		out, cp = d.reopenProjOnce(w, n)
		if ops, _ := out["opens"].([]string); len(ops) > 0 || w.mgr == nil {
			break
		}
		time.Sleep(20 * time.Millisecond)
	}
	return out, cp
}

func (d *drv) reopenProjOnce(w *wallet, n int) (map[string]interface{}, string) {
	// with opt walletopen every fourth projection opens the copy the way the node does at start-up (wallet.NewPoCWallet on
	// <MinerDir>/keystore, once per candidate passphrase), the others share one store opened with small buffers
	viaWallet := d.walletOpen && n%4 == 0
	top := filepath.Join(d.dir, fmt.Sprintf("%s-copy%d", w.name, n))
	cp := filepath.Join(top, "keystore")
	defer os.RemoveAll(top)
	out := map[string]interface{}{}
	opens := []string{}
	var proj map[string]interface{}
	// Copying a directory that a live goleveldb instance owns is not atomic (its background goroutine may
	// rotate the manifest or drop an obsolete table in between): retry until the copy opens.
	// The copy is opened in the same on-disk format with small buffers (it is opened many times per scenario).
	var raw *leveldb.DB
	var err error
	for attempt := 0; attempt < 8; attempt++ {
		os.RemoveAll(cp)
		if err = vh.CopyDir(w.dir, cp); err != nil {
			time.Sleep(5 * time.Millisecond)
			continue
		}
		os.Remove(filepath.Join(cp, "LOCK"))
		raw, err = leveldb.OpenFile(cp, &opt.Options{ErrorIfMissing: true, WriteBuffer: 1 << 20, BlockCacheCapacity: 1 << 20})
		if err == nil {
			break
		}
		time.Sleep(10 * time.Millisecond)
	}
	if err != nil {
		return map[string]interface{}{"err": "open copy: " + err.Error()}, cp
	}
	var s db.DB = &ldb.LevelDB{LDb: raw}
	if viaWallet {
		s.Close()
	} else {
		defer s.Close()
	}
	wcfg := &config.Config{Miner: &config.Miner{MinerDir: top}, Datastore: &coreconfig.Datastore{DBType: "leveldb"}}
	var closeLast func() error
	for _, q := range allPass {
		if closeLast != nil {
			closeLast() // one instance at a time owns the store
			closeLast = nil
		}
		var m *keystore.KeystoreManagerForPoC
		if viaWallet {
			pw, err := pocwallet.NewPoCWallet(wcfg, d.pass[q])
			if err != nil {
				continue
			}
			closeLast = pw.Close
			m = pw.KeystoreManagerForPoC
		} else {
			var err error
			m, err = keystore.NewKeystoreManagerForPoC(s, d.pass[q], config.ChainParams)
			if err != nil {
				continue
			}
		}
		opens = append(opens, q)
		if proj == nil {
			proj = d.project(m)
			unl := []string{}
			for _, p := range allPass {
				if m.Unlock(d.pass[p]) == nil {
					unl = append(unl, p)
					digest := sha256.Sum256([]byte("reopen"))
					okk, bad := d.signProj(m, digest[:])
					proj["signable_after_unlock"] = len(okk)
					if len(bad) > 0 {
						proj["sigbad"] = bad
					}
				}
				m.Lock()
			}
			proj["unlocks"] = unl
			next := map[string]map[string]int{}
			for _, am := range m.GetManagedAddrManager() {
				nx := map[string]int{"ext": -1, "int": -1}
				for _, internal := range []bool{false, true} {
					mas, err := m.NextAddresses(am.Name(), internal, 1)
					if err == nil && len(mas) == 1 {
						ord, _ := m.GetPublicKeyOrdinal(mas[0].PubKey())
						if internal {
							nx["int"] = int(ord)
						} else {
							nx["ext"] = int(ord)
						}
					}
				}
				next[d.absID(am.Name())] = nx
			}
			proj["next"] = next
		}
	}
	if closeLast != nil {
		closeLast()
	}
	if proj == nil {
		proj = map[string]interface{}{"ks": map[string]ksProj{}, "locked": true, "unlocks": []string{}, "next": map[string]int{}}
	}
	for k, v := range proj {
		out[k] = v
	}
	out["opens"] = opens
	return out, cp
}

// clearScan looks for every known secret, in several encodings, in the store files (raw and as LevelDB
// key/value pairs), the exported files and the log.
func (d *drv) clearScan(extra [][]byte) []string {
	found := []string{}
	var hay [][]byte
	var names []string
	for _, wn := range d.wnames {
		w := d.wallets[wn]
		filepath.Walk(w.dir, func(p string, info os.FileInfo, err error) error {
			if err == nil && !info.IsDir() {
				if b, err := ioutil.ReadFile(p); err == nil {
					hay = append(hay, b)
					names = append(names, "file:"+w.name+"/"+filepath.Base(p))
				}
			}
			return nil
		})
		// decompressed view of the tables: copy and iterate with goleveldb
		cp := filepath.Join(d.dir, w.name+"-scan")
		if vh.CopyDir(w.dir, cp) == nil {
			os.Remove(filepath.Join(cp, "LOCK"))
			if ldb, err := leveldb.OpenFile(cp, &opt.Options{ErrorIfMissing: true, WriteBuffer: 1 << 20, BlockCacheCapacity: 1 << 20}); err == nil {
				it := ldb.NewIterator(nil, nil)
				var buf bytes.Buffer
				for it.Next() {
					buf.Write(it.Key())
					buf.WriteByte(0)
					buf.Write(it.Value())
					buf.WriteByte(0)
				}
				it.Release()
				ldb.Close()
				hay = append(hay, buf.Bytes())
				names = append(names, "kv:"+w.name)
			}
		}
		os.RemoveAll(cp)
	}
	for f, b := range d.files {
		hay = append(hay, b)
		names = append(names, "export:"+f)
	}
	for _, f := range d.apiFiles {
		if b, err := ioutil.ReadFile(f); err == nil {
			hay = append(hay, b)
			names = append(names, "exportfile:"+filepath.Base(f))
		}
	}
	if d.logPath != "" {
		if b, err := ioutil.ReadFile(d.logPath); err == nil {
			hay = append(hay, b)
			names = append(names, "log")
		}
	}
	// sealed secrets must need the private passphrase: whatever opens with the public crypto key alone is as good as clear
	for _, wn := range d.wnames {
		if w := d.wallets[wn]; w != nil && w.mgr != nil {
			us := keystore.VerifPublicUnseals(w.mgr)
			ids := make([]string, 0, len(us))
			for id := range us {
				ids = append(ids, id)
			}
			sort.Strings(ids)
			for _, id := range ids {
				for _, k := range us[id] {
					found = append(found, fmt.Sprintf("store:%s keystore %s: %s opens with the public passphrase alone", w.name, id[:8], k))
				}
			}
		}
	}
	all := append(append([][]byte{}, d.needles...), extra...)
	for _, n := range all {
		if len(n) < 6 {
			continue
		}
		for ei, e := range encodings(n) {
			for hi, h := range hay {
				if bytes.Contains(h, e) {
					found = append(found, fmt.Sprintf("%s contains secret %s (encoding %d)", names[hi], d.describeNeedle(n), ei))
				}
			}
		}
	}
	return found
}

func (d *drv) describeNeedle(n []byte) string {
	for s, b := range d.seeds {
		if bytes.Equal(b, n) {
			return "seed " + s
		}
	}
	for p, b := range d.pass {
		if bytes.Equal(b, n) {
			return "passphrase " + p
		}
	}
	if bytes.HasPrefix(n, []byte("xprv")) || len(n) > 60 {
		return "extended private key"
	}
	return fmt.Sprintf("private key material (%d bytes)", len(n))
}

// ---------------------------------------------------------------------------------- tampering

func tamper(blob []byte, fld string, r interface{ Intn(int) int }) []byte {
	if fld == "json" {
		if len(blob) > 10 {
			return blob[:len(blob)-5]
		}
		return []byte("{")
	}
	var m map[string]interface{}
	if json.Unmarshal(blob, &m) != nil {
		return blob
	}
	flipHex := func(s string) string {
		if len(s) == 0 {
			return "00"
		}
		i := r.Intn(len(s))
		c := s[i]
		n := byte('0')
		if c == '0' {
			n = '1'
		}
		return s[:i] + string(n) + s[i+1:]
	}
	crypto, _ := m["crypto"].(map[string]interface{})
	hd, _ := m["hdPath"].(map[string]interface{})
	switch fld {
	case "remark":
		m["remark"] = fmt.Sprint(m["remark"]) + "-forged"
	case "cipher", "kdf":
		if crypto != nil {
			crypto[fld] = "other"
		}
	case "masterHDPrivKeyEnc", "pubParams", "privParams", "cryptoKeyPubEnc", "cryptoKeyPrivEnc":
		if crypto != nil {
			s, _ := crypto[fld].(string)
			if (fld == "pubParams" || fld == "privParams") && len(s) > 128 {
				// salt and digest only: the last 24 bytes are the scrypt work factors N, r, p, and a file that
				// raises them makes the import run for minutes or hours before it is refused (seen as a stalled
				// driver; the work factors of a file are not bounded by the wallet - noted in DESIGN.md)
				crypto[fld] = flipHex(s[:128]) + s[128:]
			} else {
				crypto[fld] = flipHex(s)
			}
		}
	case "Purpose", "Coin", "Account", "ExternalChildNum", "InternalChildNum":
		if hd != nil {
			v, _ := hd[fld].(float64)
			hd[fld] = v + 1
		}
	}
	out, err := json.Marshal(m)
	if err != nil {
		return blob
	}
	return out
}

// ---------------------------------------------------------------------------------- run

// ---------------------------------------------------------------------------------- concurrent histories (C14)

// runConc: a sequential prefix (sc.Steps), then sc.Opt["threads"] run concurrently on one manager.  Every call is
// stamped with a global sequence number before it starts and after it returned; the history is validated by
// WalletLin.tla (is there a linearisation?).  Built with -race the same binary also reports data races.
func runConc(sc vh.Scenario, dir string, rec *vh.Rec) {
	keystore.DefaultScryptOptions = fast
	d := newDrv(sc, dir)
	rng := vh.Rng(sc.Seed ^ 0x5eed)
	w := d.wal("w1")
	d.wal("w2")
	defer d.closeWallet(w)
	if err := d.openWallet(w, "q1"); err != nil {
		rec.Dead, rec.Note = true, "open: "+err.Error()
		return
	}
	m := w.mgr
	var seq int64
	var mu sync.Mutex
	events := []vh.Event{}
	emit := func(ev vh.Event) {
		mu.Lock()
		seq++
		ev["seq"] = seq
		events = append(events, ev)
		mu.Unlock()
	}
	exec := func(t int, st vh.Step) {
		call := vh.Event{"ev": "call", "t": t}
		for k, v := range st {
			call[k] = v
		}
		call["a"] = st.A()
		delete(call, "t0")
		emit(call)
		res, out := "ok", map[string]interface{}{}
		func() {
			defer func() {
				if r := recover(); r != nil {
					res = fmt.Sprintf("panic: %v", r)
				}
			}()
			setErr := func(err error) {
				if err != nil {
					res = "err"
				}
			}
			switch st.A() {
			case "NewKs":
				id, err := m.NewKeystore(d.pass[st.Str("p")], d.seeds[st.Str("s")], d.remarks[st.Str("r")], config.ChainParams, &fast)
				setErr(err)
				if err == nil {
					mu.Lock()
					out["id"] = d.learnID(id, st.Str("s"))
					mu.Unlock()
				}
			case "GenKey":
				pk, ord, err := m.GenerateNewPublicKey()
				setErr(err)
				if err == nil {
					owner := "?"
					for _, am := range m.GetManagedAddrManager() {
						if a, err := am.Address(mustAddr(m, pk)); err == nil && a != nil {
							owner = d.absID(am.Name())
						}
					}
					out["s"], out["idx"] = owner, int(ord)
					out["pk"] = hex.EncodeToString(pk.SerializeCompressed())
				}
			case "NextAddr":
				mas, err := m.NextAddresses(d.id(st.Str("s")), st.Int("b") == 1, uint32(st.Int("n")))
				setErr(err)
				idx := []int{}
				for _, ma := range mas {
					ord, _ := m.GetPublicKeyOrdinal(ma.PubKey())
					idx = append(idx, int(ord))
				}
				out["idx"] = idx
			case "Remark":
				setErr(m.ChangeRemark(d.id(st.Str("s")), d.remarks[st.Str("r")]))
			case "Lock":
				m.Lock()
			case "Unlock":
				setErr(m.Unlock(d.pass[st.Str("p")]))
			case "Export":
				_, err := m.ExportKeystore(d.id(st.Str("s")), d.pass[st.Str("p")])
				setErr(err)
			case "IsLocked":
				out["locked"] = m.IsLocked()
			case "List":
				n := 0
				for _, am := range m.GetManagedAddrManager() {
					n += len(am.ListAddresses())
					_ = am.Remarks()
				}
				out["count"] = n
			case "Sign":
				// sign with the most recent external key of the keystore (issued before the concurrent phase or during it)
				var pk *pocec.PublicKey
				mu.Lock()
				if h, ok := d.keyTab[fmt.Sprintf("%s/0/%d", st.Str("s"), st.Int("i"))]; ok {
					raw, _ := hex.DecodeString(h)
					pk, _ = pocec.ParsePubKey(raw, pocec.S256())
				}
				mu.Unlock()
				if pk == nil {
					pk = d.foreign.PubKey()
					out["foreign"] = true
				}
				digest := sha256.Sum256([]byte("conc"))
				sig, err := m.SignHash(pk, digest[:])
				setErr(err)
				if err == nil {
					out["verifies"] = sig.Verify(digest[:], pk)
				}
			case "Ordinal":
				var pk *pocec.PublicKey
				mu.Lock()
				if h, ok := d.keyTab[fmt.Sprintf("%s/0/%d", st.Str("s"), st.Int("i"))]; ok {
					raw, _ := hex.DecodeString(h)
					pk, _ = pocec.ParsePubKey(raw, pocec.S256())
				}
				mu.Unlock()
				if pk == nil {
					out["known"] = false
					return
				}
				out["known"] = true
				ord, found := m.GetPublicKeyOrdinal(pk)
				out["found"], out["idx"] = found, int(ord)
			default:
				res = "unknown-action"
			}
		}()
		emit(vh.Event{"ev": "ret", "t": t, "a": st.A(), "res": res, "out": out})
	}
	_ = rng
	// sequential prefix on thread 0 (its keys are learnt so that Sign / Ordinal can name them)
	for _, st := range sc.Steps {
		exec(0, st)
		if st.A() == "GenKey" || st.A() == "NextAddr" {
			d.project(m)
		}
	}
	threads, _ := sc.Opt["threads"].([]interface{})
	var wg sync.WaitGroup
	start := make(chan struct{})
	for ti, tv := range threads {
		ops, _ := tv.([]interface{})
		wg.Add(1)
		go func(t int, ops []interface{}) {
			defer wg.Done()
			<-start
			for _, o := range ops {
				om, _ := o.(map[string]interface{})
				exec(t, vh.Step(om))
			}
		}(ti+1, ops)
	}
	close(start)
	done := make(chan struct{})
	go func() { wg.Wait(); close(done) }()
	select {
	case <-done:
	case <-time.After(60 * time.Second):
		rec.Note = "concurrent phase did not finish"
		emit(vh.Event{"ev": "hang"})
	}
	for _, e := range events {
		rec.Emit(e)
	}
	// final state: the running instance and the reopened store must agree with the linearisation's final state
	fin := vh.Event{"ev": "final"}
	fin["run"] = map[string]interface{}{"w1": d.project(m)}
	reo, _ := d.reopenProj(w, 1)
	fin["reo"] = map[string]interface{}{"w1": reo}
	fin["keyok"] = d.keyok
	rec.Emit(fin)
}

func mustAddr(m *keystore.KeystoreManagerForPoC, pk *pocec.PublicKey) string {
	a, _ := m.GetAddressByPubKey(pk)
	return a
}

func run(sc vh.Scenario, dir string, rec *vh.Rec) {
	if _, ok := sc.Opt["threads"]; ok {
		runConc(sc, dir, rec)
		return
	}
	keystore.DefaultScryptOptions = fast
	d := newDrv(sc, dir)
	rec.Conc = map[string]string{}
	for k, v := range d.pass {
		rec.Conc["pass:"+k] = string(v)
	}
	for k, v := range d.remarks {
		rec.Conc["remark:"+k] = v
	}
	for k, v := range d.seeds {
		rec.Conc["seed:"+k] = hex.EncodeToString(v)
	}
	rng := vh.Rng(sc.Seed ^ 0x5eed)
	wl := vh.StrSeq(sc.Opt["wallets"])
	if len(wl) == 0 {
		wl = []string{"w1"}
	}
	for _, w := range wl {
		d.wal(w)
	}
	defer func() {
		for _, w := range d.wallets {
			d.closeWallet(w)
		}
	}()
	light, _ := sc.Opt["light"].(bool) // skip the heavy projections (used by large sweeps)
	d.api, _ = sc.Opt["api"].(bool)
	d.walletOpen, _ = sc.Opt["walletopen"].(bool)
	ctx := context.Background()
	ncopy := 0
	reoCache := map[string]interface{}{}
	for i, st := range sc.Steps {
		// a step the real wallet cannot take (its wallet is down / already up because an assumed fault did not
		// fire earlier) is no call at all: it is skipped, not recorded
		if wn := st.Str("w"); wn != "" {
			ww := d.wal(wn)
			if (st.A() == "Open") == (ww.mgr != nil) {
				continue
			}
		}
		if st.A() == "Tamper" {
			if _, ok := d.files[st.Str("f")]; !ok || d.tampered[st.Str("f")] {
				continue
			}
			d.tampered[st.Str("f")] = true
			d.tamperFld[st.Str("f")] = st.Str("fld")
		}
		ev := vh.Event{"step": i + 1}
		for k, v := range st {
			ev[k] = v
		}
		ev["a"] = st.A()
		delete(ev, "t")
		rec.Begin(ev)
		res, out := "ok", map[string]interface{}{}
		fired := false
		var w *wallet
		if wn := st.Str("w"); wn != "" {
			w = d.wal(wn)
		}
		fault := st.Str("fault")
		if fault == "" {
			fault = "none"
		}
		crashed := false
		func() {
			defer func() {
				if r := recover(); r != nil {
					if _, ok := r.(crashSentinel); ok {
						crashed = true
						return
					}
					res = fmt.Sprintf("panic: %v", r)
				}
			}()
			setErr := func(err error) {
				if err != nil {
					res = "err"
					out["err"] = err.Error()
				}
			}
			if st.A() == "Tamper" {
				f := st.Str("f")
				if b, ok := d.files[f]; ok {
					d.files[f] = tamper(b, st.Str("fld"), rng)
				} else {
					res = "nofile"
				}
				return
			}
			if st.A() == "Open" {
				if w.mgr != nil {
					res = "alreadyup"
					return
				}
				setErr(d.openWallet(w, st.Str("q")))
				return
			}
			if w == nil || w.mgr == nil {
				res = "down"
				return
			}
			m := w.mgr
			if fault != "none" {
				w.fdb.arm(fault, st.Int("k"), st.Int("c"))
				defer func() {
					if w.fdb != nil {
						fired, _ = w.fdb.disarm()
					}
				}()
			}
			switch st.A() {
			case "Close":
				d.closeWallet(w)
			case "NewKs":
				id, err := m.NewKeystore(d.pass[st.Str("p")], d.seeds[st.Str("s")], d.remarks[st.Str("r")], config.ChainParams, &fast)
				setErr(err)
				if err == nil {
					out["id"] = d.learnID(id, st.Str("s"))
					w.priv = d.pass[st.Str("p")]
				}
			case "NextAddr":
				mas, err := m.NextAddresses(d.id(st.Str("s")), st.Int("b") == 1, uint32(st.Int("n")))
				setErr(err)
				idx := []int{}
				for _, ma := range mas {
					ord, found := m.GetPublicKeyOrdinal(ma.PubKey())
					if !found {
						idx = append(idx, -1)
						continue
					}
					idx = append(idx, int(ord))
					if (ma.IsChangeAddr()) != (st.Int("b") == 1) {
						idx = append(idx, -2)
					}
					d.learnKey(st.Str("s"), uint32(st.Int("b")), ord, ma.PubKey())
				}
				out["idx"] = idx
			case "GenKey":
				pk, ord, err := m.GenerateNewPublicKey()
				setErr(err)
				if err == nil {
					// the owner is found through the public listing
					owner := "?"
					for _, am := range m.GetManagedAddrManager() {
						for _, ma := range am.ManagedAddresses() {
							if ma.PubKey().IsEqual(pk) && !ma.IsChangeAddr() {
								owner = d.absID(am.Name())
							}
						}
					}
					o2, found := m.GetPublicKeyOrdinal(pk)
					if !found || o2 != ord {
						owner = "?ordinal-mismatch"
					}
					if !strings.HasPrefix(owner, "?") {
						key := fmt.Sprintf("%s/0/%d", owner, ord)
						h := hex.EncodeToString(pk.SerializeCompressed())
						if old, ok := d.pkTab[h]; ok && old != key {
							d.keyok, d.keynote = false, "GenKey returned a key already known as "+old
						}
						d.learnKey(owner, 0, ord, pk)
					}
					out["s"], out["idx"] = owner, int(ord)
				}
			case "Remark":
				setErr(m.ChangeRemark(d.id(st.Str("s")), d.remarks[st.Str("r")]))
			case "ChangePriv":
				old := d.cand(w, st.Str("old"), rng)
				var err error
				if d.viaAPI(old, d.pass[st.Str("new")]) {
					_, err = d.srv(w).ChangePrivatePass(ctx, &pb.ChangePrivatePassRequest{OldPrivpass: string(old), NewPrivpass: string(d.pass[st.Str("new")])})
				} else {
					err = m.ChangePrivPassphrase(old, d.pass[st.Str("new")], &fast)
				}
				setErr(err)
				if err == nil && len(m.ListKeystoreNames()) > 0 {
					w.priv = d.pass[st.Str("new")]
				}
			case "ChangePub":
				var err error
				if d.viaAPI(d.pass[st.Str("old")], d.pass[st.Str("new")]) {
					_, err = d.srv(w).ChangePublicPass(ctx, &pb.ChangePublicPassRequest{OldPubpass: string(d.pass[st.Str("old")]), NewPubpass: string(d.pass[st.Str("new")])})
				} else {
					err = m.ChangePubPassphrase(d.pass[st.Str("old")], d.pass[st.Str("new")], &fast)
				}
				setErr(err)
				if err == nil {
					w.pub = st.Str("new")
				}
			case "Delete":
				okd, err := m.DeleteKeystore(d.id(st.Str("s")), d.cand(w, st.Str("p"), rng))
				setErr(err)
				if err == nil && !okd {
					res = "err"
				}
			case "Export":
				pp := d.cand(w, st.Str("p"), rng)
				var b []byte
				var err error
				if d.viaAPI(pp) && len(d.id(st.Str("s"))) == api.LenWalletId {
					// the handler answers with the keystore and writes it to <ExportPath>/keystore-<id>.json
					xdir := filepath.Join(d.dir, "exports-"+w.name)
					os.MkdirAll(xdir, 0o755)
					var resp *pb.ExportKeystoreResponse
					resp, err = d.srv(w).ExportKeystore(ctx, &pb.ExportKeystoreRequest{WalletId: d.id(st.Str("s")), Passphrase: string(pp), ExportPath: xdir})
					if err == nil {
						b = []byte(resp.Keystore)
						fn := filepath.Join(xdir, "keystore-"+d.id(st.Str("s"))+".json")
						d.apiFiles = append(d.apiFiles, fn)
						if fb, e := ioutil.ReadFile(fn); e != nil || !bytes.Equal(fb, b) {
							out["exportfile"] = "differs from the answer"
						}
					}
				} else {
					b, err = m.ExportKeystore(d.id(st.Str("s")), pp)
				}
				setErr(err)
				if err == nil {
					w.priv = pp
					d.files[st.Str("f")] = b
					d.fileSeed[st.Str("f")] = st.Str("s")
				}
			case "Import":
				blob, ok := d.files[st.Str("f")]
				if !ok {
					blob = []byte("{}")
				}
				var id, remark string
				var err error
				if d.viaAPI(d.pass[st.Str("old")]) && (len(d.pass[st.Str("new")]) == 0 || d.viaAPI(d.pass[st.Str("new")])) && !bytes.Contains(blob, []byte("\n")) {
					// the handler reads the keystore (one line) from a file
					fn := filepath.Join(d.dir, fmt.Sprintf("import-%d.json", i))
					ioutil.WriteFile(fn, blob, 0o600)
					var resp *pb.ImportKeystoreResponse
					resp, err = d.srv(w).ImportKeystore(ctx, &pb.ImportKeystoreRequest{ImportPath: fn, OldPassphrase: string(d.pass[st.Str("old")]), NewPassphrase: string(d.pass[st.Str("new")])})
					if err == nil {
						id, remark = resp.WalletId, resp.Remark
					}
					os.Remove(fn)
				} else {
					id, remark, err = m.ImportKeystore(blob, d.pass[st.Str("old")], d.pass[st.Str("new")])
				}
				setErr(err)
				if err == nil {
					seed := d.fileSeed[st.Str("f")]
					if d.tamperFld[st.Str("f")] == "Account" {
						seed = "sX" // a forged account number gives another keystore identity (known finding)
					}
					out["id"] = d.learnID(id, seed)
					if r, ok := d.absRem[remark]; ok {
						out["remark"] = r
					} else {
						out["remark"] = "?" + remark
					}
				}
			case "Lock":
				if d.api {
					_, err := d.srv(w).LockWallet(ctx, &empty.Empty{})
					setErr(err)
				} else {
					m.Lock()
				}
			case "Unlock":
				pp := d.cand(w, st.Str("p"), rng)
				var err error
				if d.viaAPI(pp) && m.IsLocked() {
					// (the handler answers success for an unlocked wallet without looking at the passphrase: those
					// calls go to the wallet directly)
					_, err = d.srv(w).UnlockWallet(ctx, &pb.UnlockWalletRequest{Passphrase: string(pp)})
				} else {
					err = m.Unlock(pp)
				}
				setErr(err)
				if err == nil && len(m.ListKeystoreNames()) > 0 {
					w.priv = pp
				}
			case "Sign":
				pk := d.pubKey(st.Str("s"), st.Int("b"), st.Int("i"))
				digest := sha256.Sum256([]byte(fmt.Sprintf("digest %d %d", sc.Seed, i)))
				sig, err := m.SignHash(pk, digest[:])
				setErr(err)
				if err == nil {
					out["verifies"] = sig.Verify(digest[:], pk)
				}
				if _, err2 := m.SignHash(pk, digest[:31]); err2 == nil {
					out["shortdigest"] = "accepted"
				}
			case "Ordinal":
				pk := d.pubKey(st.Str("s"), st.Int("b"), st.Int("i"))
				ord, found := m.GetPublicKeyOrdinal(pk)
				if !found {
					res = "err"
				} else {
					out["idx"] = int(ord)
				}
			default:
				res = "unknown-action"
			}
		}()
		if crashed {
			// the process "died" inside the call: abandon the instance, restart on the same store
			fired = true
			res = "crashed"
			if w.fdb != nil {
				w.fdb.disarm()
			}
			d.closeWallet(w)
			cands := append([]string{w.pub}, allPass...)
			if fault == "crashafter" && st.A() == "ChangePub" {
				cands = append([]string{st.Str("new")}, cands...)
			}
			restarted := false
			for _, q := range cands {
				if d.openWallet(w, q) == nil {
					restarted = true
					break
				}
			}
			out["restarted"] = restarted
			if restarted {
				seed := ""
				if st.A() == "NewKs" {
					seed = st.Str("s")
				} else if st.A() == "Import" {
					seed = d.fileSeed[st.Str("f")]
				}
				if seed != "" {
					for _, id := range w.mgr.ListKeystoreNames() {
						if _, known := d.idToSeed[id]; !known {
							d.learnID(id, seed)
						}
					}
				}
			}
		}
		ev["res"], ev["out"], ev["fired"], ev["fault"] = res, out, fired, fault
		if fired && !crashed && w != nil && w.mgr != nil {
			// the operation reported an error and the process goes on: the running instance must still behave as
			// before towards passphrases too.  Which candidates unlock it now?  (It is put back as it was.)
			was := w.mgr.IsLocked()
			unl := []string{}
			for _, p := range allPass {
				w.mgr.Lock()
				if w.mgr.Unlock(d.pass[p]) == nil {
					unl = append(unl, p)
				}
			}
			w.mgr.Lock()
			if !was {
				for _, p := range unl {
					if w.mgr.Unlock(d.pass[p]) == nil {
						break
					}
				}
			}
			ev["runl"] = map[string]interface{}{w.name: unl}
		}
		observer := st.A() == "Sign" || st.A() == "Ordinal"
		// projections of every wallet
		runP, reoP, secP, sigP := map[string]interface{}{}, map[string]interface{}{}, map[string]interface{}{}, map[string]interface{}{}
		var memNeedles [][]byte
		sigbad := []string{}
		digest := sha256.Sum256([]byte(fmt.Sprintf("step %d %d", sc.Seed, i)))
		for _, wn := range d.wnames {
			ww := d.wallets[wn]
			if ww.mgr == nil {
				runP[wn] = map[string]interface{}{"closed": true}
				secP[wn] = []string{}
				sigP[wn] = [][]interface{}{}
			} else {
				runP[wn] = d.project(ww.mgr)
				kinds, nd := d.secrets(ww.mgr)
				secP[wn] = kinds
				memNeedles = append(memNeedles, nd...)
				okk, bad := d.signProj(ww.mgr, digest[:])
				sigP[wn] = okk
				sigbad = append(sigbad, bad...)
			}
			if !observer && !light {
				// a call on wallet w touches only w's store: other wallets keep their last projection
				if _, ok := reoCache[wn]; !ok || w == nil || w == ww {
					ncopy++
					reoCache[wn], _ = d.reopenProj(ww, ncopy)
				}
				reoP[wn] = reoCache[wn]
			}
		}
		ev["run"], ev["sec"], ev["sig"], ev["sigbad"] = runP, secP, sigP, sigbad
		if !observer && !light {
			ev["reo"] = reoP
			ev["clear"] = d.clearScan(memNeedles)
		}
		ev["keyok"] = d.keyok
		if !d.keyok {
			ev["keynote"] = d.keynote
		}
		rec.Emit(ev)
		if strings.HasPrefix(res, "panic") {
			break
		}
	}
}

func main() {
	flag.Parse()
	vh.Main(run)
}
