package main

import (
	"errors"

	"massnet.org/mass/poc/wallet/db"
)

// faultDB wraps the wallet's store and injects, into the next write transaction after arm():
//
//	failwrite k  : the k-th mutating bucket call returns an error
//	failcommit   : Commit discards the transaction and returns an error
//	crashbefore  : at Commit the transaction is discarded and the "process dies" (panic with crashSentinel)
//	crashafter   : at Commit the transaction is committed and the "process dies"
//
// It uses only the public interfaces of poc/wallet/db.
type faultDB struct {
	db.DB
	plan *plan
}

type plan struct {
	kind    string
	k       int
	writes  int
	fired   bool
	armed   bool
	nTx     int // write transactions begun while armed
	c       int // which commit of the operation the commit-time fault strikes (1 = first)
	nCommit int
}

type crashSentinel struct{}

var errInjected = errors.New("verif: injected storage fault")

func (f *faultDB) arm(kind string, k int, c int) {
	if c < 1 {
		c = 1
	}
	f.plan = &plan{kind: kind, k: k, c: c, armed: kind != "" && kind != "none"}
}
func (f *faultDB) disarm() (fired bool, writes int) {
	if f.plan == nil {
		return false, 0
	}
	fired, writes = f.plan.fired, f.plan.writes
	f.plan = nil
	return
}

func (f *faultDB) BeginTx() (db.DBTransaction, error) {
	tx, err := f.DB.BeginTx()
	if err != nil {
		return nil, err
	}
	p := f.plan
	if p == nil || !p.armed {
		p = &plan{} // counting only
	}
	p.nTx++
	return &ftx{DBTransaction: tx, p: p}, nil
}

type ftx struct {
	db.DBTransaction
	p *plan
}

func (t *ftx) Commit() error {
	p := t.p
	p.nCommit++
	if p.armed && !p.fired && p.nCommit == p.c {
		switch p.kind {
		case "failcommit":
			p.fired = true
			t.DBTransaction.Rollback()
			return errInjected
		case "crashbefore":
			p.fired = true
			t.DBTransaction.Rollback()
			panic(crashSentinel{})
		case "crashafter":
			p.fired = true
			if err := t.DBTransaction.Commit(); err != nil {
				panic("verif: underlying commit failed: " + err.Error())
			}
			panic(crashSentinel{})
		}
	}
	return t.DBTransaction.Commit()
}

func (t *ftx) wrap(b db.Bucket) db.Bucket {
	if b == nil {
		return nil
	}
	return &fbucket{in: b, t: t}
}
func (t *ftx) TopLevelBucket(name string) db.Bucket {
	return t.wrap(t.DBTransaction.TopLevelBucket(name))
}
func (t *ftx) FetchBucket(m db.BucketMeta) db.Bucket { return t.wrap(t.DBTransaction.FetchBucket(m)) }
func (t *ftx) CreateTopLevelBucket(name string) (db.Bucket, error) {
	if t.hit() {
		return nil, errInjected
	}
	b, err := t.DBTransaction.CreateTopLevelBucket(name)
	return t.wrap(b), err
}

// hit counts one mutating call and says whether the injected write failure strikes it
func (t *ftx) hit() bool {
	p := t.p
	p.writes++
	if p.armed && !p.fired && p.kind == "failwrite" && p.writes == p.k {
		p.fired = true
		return true
	}
	return false
}

type fbucket struct {
	in db.Bucket
	t  *ftx
}

func (b *fbucket) NewBucket(name string) (db.Bucket, error) {
	if b.t.hit() {
		return nil, errInjected
	}
	nb, err := b.in.NewBucket(name)
	return b.t.wrap(nb), err
}
func (b *fbucket) Bucket(name string) db.Bucket   { return b.t.wrap(b.in.Bucket(name)) }
func (b *fbucket) BucketNames() ([]string, error) { return b.in.BucketNames() }
func (b *fbucket) DeleteBucket(name string) error {
	if b.t.hit() {
		return errInjected
	}
	return b.in.DeleteBucket(name)
}
func (b *fbucket) Put(k, v []byte) error {
	if b.t.hit() {
		return errInjected
	}
	return b.in.Put(k, v)
}
func (b *fbucket) Delete(k []byte) error {
	if b.t.hit() {
		return errInjected
	}
	return b.in.Delete(k)
}
func (b *fbucket) Get(k []byte) ([]byte, error) { return b.in.Get(k) }
func (b *fbucket) Clear() error {
	if b.t.hit() {
		return errInjected
	}
	return b.in.Clear()
}
func (b *fbucket) GetByPrefix(p []byte) ([]*db.Entry, error) { return b.in.GetByPrefix(p) }
func (b *fbucket) GetBucketMeta() db.BucketMeta              { return b.in.GetBucketMeta() }
