// keeperdrv replays TLC-generated behaviours of specs/Keeper.tla against the real space keeper
// (poc/engine/spacekeeper/capacity) with its real plotter goroutine.  The plot-DB backend is scripted
// (a plot ends when, and how, the scenario says) and the plotter goroutine runs under scheduler gates
// (verif-tagged hooks), so the interleaving of API calls with plotter steps is the one TLC chose.
// After every step the driver records the result and the keeper's state: the public queries for all flag
// sets, the mining spaces offered to the miner, and (verif snapshot) index membership, channel / queue length.
package main

import (
	"context"
	"encoding/hex"
	"errors"
	"flag"
	"fmt"
	"os"
	"path/filepath"
	"runtime/debug"
	"sort"
	"strings"
	"sync"
	"sync/atomic"
	"time"

	"github.com/massnetorg/mass-core/poc"
	"github.com/massnetorg/mass-core/poc/pocutil"
	"github.com/massnetorg/mass-core/pocec"

	"github.com/golang/protobuf/ptypes/empty"
	"github.com/massnetorg/mass-core/blockchain"
	coreconfig "github.com/massnetorg/mass-core/config"
	"github.com/massnetorg/mass-core/massutil"
	"github.com/massnetorg/mass-core/wire"
	"google.golang.org/grpc/status"

	"massnet.org/mass/api"
	pb "massnet.org/mass/api/proto"
	"massnet.org/mass/config"
	"massnet.org/mass/mining"
	"massnet.org/mass/poc/engine"
	"massnet.org/mass/poc/engine/massdb"
	massdb_v1 "massnet.org/mass/poc/engine/massdb/massdb.v1"
	realminer "massnet.org/mass/poc/engine/pocminer/miner"
	"massnet.org/mass/poc/engine/spacekeeper/capacity"
	"massnet.org/mass/poc/wallet/keystore"

	"verifharness/vh"
)

// ------------------------------------------------------------------ scripted plot DB

type fakeDB struct {
	mu        sync.Mutex
	dir       string
	ordinal   int64
	pk        *pocec.PublicKey
	bl        int
	plotted   bool
	progress  float64
	plotting  bool
	deleted   bool
	finishCh  chan string // "complete" | "aborted"
	stopCh    chan struct{}
	doneCh    chan struct{}
	reg       *registry
	plotCalls int
	// opt realdb: the real massdb.v1 engine (a table of innerBL bits behind the configured name) does the plotting,
	// stopping, progress, proofs and deletion; the scripted part only decides when a plot may go on
	inner     *massdb_v1.MassDBV1
	release   func()
	stopsSeen int
}

const innerBL = 10

type registry struct {
	mu        sync.Mutex
	dbs       map[string]*fakeDB
	preplot   map[int64]bool // ordinal -> created already plotted
	inplot    chan *fakeDB   // Plot() announces itself here (a park point of the plotter goroutine)
	real      bool
	holdStops int // opt realdb: the held first window of a plot is released by this many StopPlot calls (0/1: the first)
}

func key(dir string, ord int64, pk *pocec.PublicKey, bl int) string {
	return fmt.Sprintf("%s|%d|%x|%d", dir, ord, pk.SerializeCompressed(), bl)
}

func (r *registry) parse(args []interface{}) (string, int64, *pocec.PublicKey, int, error) {
	if len(args) != 4 {
		return "", 0, nil, 0, massdb.ErrInvalidDBArgs
	}
	dir, _ := args[0].(string)
	ord, _ := args[1].(int64)
	pk, _ := args[2].(*pocec.PublicKey)
	bl, _ := args[3].(int)
	if pk == nil {
		return "", 0, nil, 0, massdb.ErrInvalidDBArgs
	}
	return dir, ord, pk, bl, nil
}

func (r *registry) open(args ...interface{}) (massdb.MassDB, error) {
	dir, ord, pk, bl, err := r.parse(args)
	if err != nil {
		return nil, err
	}
	r.mu.Lock()
	defer r.mu.Unlock()
	if d, ok := r.dbs[key(dir, ord, pk, bl)]; ok && !d.deleted {
		return d, nil
	}
	return nil, massdb.ErrDBDoesNotExist
}

func (r *registry) create(args ...interface{}) (massdb.MassDB, error) {
	dir, ord, pk, bl, err := r.parse(args)
	if err != nil {
		return nil, err
	}
	r.mu.Lock()
	defer r.mu.Unlock()
	d := &fakeDB{dir: dir, ordinal: ord, pk: pk, bl: bl, reg: r}
	if r.real {
		in, err := massdb_v1.NewMassDBV1(dir, ord, pk, innerBL)
		if err != nil {
			return nil, err
		}
		d.inner = in
		if r.preplot[ord] {
			massdb_v1.VerifMemFn = nil
			if err := <-in.Plot(); err != nil {
				return nil, err
			}
		}
	}
	if r.preplot[ord] {
		d.plotted, d.progress = true, 100
	}
	r.dbs[key(dir, ord, pk, bl)] = d
	return d, nil
}

func (d *fakeDB) Type() string { return "massdb.v1" }
func (d *fakeDB) Close() error { <-d.StopPlot(); return nil }
func (d *fakeDB) Ready() bool {
	if d.inner != nil {
		return d.inner.Ready()
	}
	d.mu.Lock()
	defer d.mu.Unlock()
	return d.plotted
}
func (d *fakeDB) BitLength() int           { return d.bl }
func (d *fakeDB) PubKeyHash() pocutil.Hash { return pocutil.PubKeyHash(d.pk) }
func (d *fakeDB) PubKey() *pocec.PublicKey { return d.pk }
func (d *fakeDB) GetProof(challenge pocutil.Hash, filter bool) (*poc.DefaultProof, error) {
	if d.inner != nil {
		return d.inner.GetProof(challenge, filter)
	}
	return nil, errors.New("scripted backend has no proofs")
}
func (d *fakeDB) Progress() (bool, bool, float64) {
	if d.inner != nil {
		return d.inner.Progress()
	}
	d.mu.Lock()
	defer d.mu.Unlock()
	return d.progress >= 50, d.plotted, d.progress
}

// Plot mirrors MassDBV1.Plot: refuses a second concurrent plot, returns at once for a plotted table, otherwise
// runs until the scenario ends it or StopPlot is called.
func (d *fakeDB) Plot() chan error {
	res := make(chan error, 1)
	d.mu.Lock()
	if d.plotting {
		d.mu.Unlock()
		res <- errors.New("already plotting")
		return res
	}
	d.plotCalls++
	if d.plotted {
		d.mu.Unlock()
		res <- nil
		return res
	}
	d.plotting = true
	d.finishCh, d.stopCh, d.doneCh = make(chan string, 1), make(chan struct{}), make(chan struct{})
	fin, stop, done := d.finishCh, d.stopCh, d.doneCh
	d.mu.Unlock()
	if d.inner != nil {
		go d.realPlot(fin, stop, done, res)
		return res
	}
	go func() {
		d.reg.inplot <- d
		out := "aborted"
		select {
		case out = <-fin:
		case <-stop:
		}
		d.mu.Lock()
		if out == "complete" {
			d.plotted, d.progress = true, 100
		} else if d.progress < 90 {
			d.progress += 10
		}
		d.plotting = false
		d.mu.Unlock()
		close(done)
		res <- nil
	}()
	return res
}

// realPlot: the real engine plots; its first window is held (memory hook) until the scenario lets the plot go on or
// a stop arrives, and every pass is cut into eight windows so that a stop finds a window boundary.  Stops go to the
// engine's own StopPlot, every one of them (see StopPlot below).
func (d *fakeDB) realPlot(fin chan string, stop, done chan struct{}, res chan error) {
	release := make(chan struct{})
	var once sync.Once
	d.mu.Lock()
	d.release = func() { once.Do(func() { close(release) }) }
	d.stopsSeen = 0
	d.mu.Unlock()
	calls := 0
	massdb_v1.VerifMemFn = func(required uint64) uint64 {
		calls++
		if calls == 1 {
			d.reg.inplot <- d
			<-release
		}
		rs := uint64(pocutil.RecordSize(innerBL))
		n := uint64(1) << uint(innerBL)
		m := rs * n / 8
		if pre, _, _ := d.inner.Progress(); pre {
			m = rs * 4 * (n / 2) / 8
		}
		if m == 0 || m > required {
			m = required
		}
		return m
	}
	realRes := d.inner.Plot()
	var err error
	select {
	case <-fin:
		// the scenario lets the plot run to its end (a real plot does not end early on its own: PlotEnd(aborted)
		// steps are skipped with this backend)
		d.release()
		err = <-realRes
	case err = <-realRes:
		// ended by a stop (StopPlot released the window), or before its first window
	}
	massdb_v1.VerifMemFn = nil
	_, plotted, prog := d.inner.Progress()
	d.mu.Lock()
	d.plotted, d.progress = plotted, prog
	d.plotting = false
	d.release = nil
	d.mu.Unlock()
	close(done)
	res <- err
}

func (d *fakeDB) StopPlot() chan error {
	res := make(chan error, 1)
	d.mu.Lock()
	if d.inner != nil {
		// the real engine's StopPlot, called as often as the keeper calls it; the held window is let go once the
		// stops the schedule expects have been issued (default: the first)
		d.stopsSeen++
		if os.Getenv("VH_DEBUG_STOP") != "" {
			fmt.Fprintf(os.Stderr, "STOPPLOT #%d\n%s\n", d.stopsSeen, debug.Stack())
		}
		rel, want := d.release, d.reg.holdStops
		seen := d.stopsSeen
		var done chan struct{}
		if d.plotting {
			done = d.doneCh
		}
		d.mu.Unlock()
		r := d.inner.StopPlot()
		if rel != nil && seen >= want {
			rel()
		}
		go func() {
			e := <-r
			if done != nil {
				<-done // the scripted part has seen the plot end too
			}
			res <- e
		}()
		return res
	}
	if !d.plotting {
		d.mu.Unlock()
		res <- nil
		return res
	}
	stop, done := d.stopCh, d.doneCh
	d.mu.Unlock()
	go func() {
		func() {
			defer func() { recover() }() // double close by a second StopPlot
			close(stop)
		}()
		<-done
		res <- nil
	}()
	return res
}

func (d *fakeDB) Delete() chan error {
	res := make(chan error, 1)
	d.mu.Lock()
	defer d.mu.Unlock()
	if d.plotting {
		res <- errors.New("already plotting")
		return res
	}
	if d.inner != nil {
		if err := <-d.inner.Delete(); err != nil {
			res <- err
			return res
		}
	}
	d.deleted = true
	res <- nil
	return res
}

// filesExist (opt realdb): some table file of this space is on disk
func (d *fakeDB) filesExist() bool {
	m, _ := filepath.Glob(filepath.Join(d.dir, fmt.Sprintf("%d_%x_%d*.massdb", d.ordinal, d.pk.SerializeCompressed(), innerBL)))
	return len(m) > 0
}

// ------------------------------------------------------------------ scripted wallet

type fakeWallet struct {
	mu     sync.Mutex
	locked bool
	keys   []*pocec.PrivateKey
	rng    interface{ Read([]byte) (int, error) }
}

func (w *fakeWallet) GenerateNewPublicKey() (*pocec.PublicKey, uint32, error) {
	w.mu.Lock()
	defer w.mu.Unlock()
	b := make([]byte, 32)
	w.rng.Read(b)
	b[0] |= 1
	k, _ := pocec.PrivKeyFromBytes(pocec.S256(), b)
	w.keys = append(w.keys, k)
	return k.PubKey(), uint32(len(w.keys) - 1), nil
}
func (w *fakeWallet) GetPublicKeyOrdinal(pk *pocec.PublicKey) (uint32, bool) {
	w.mu.Lock()
	defer w.mu.Unlock()
	for i, k := range w.keys {
		if k.PubKey().IsEqual(pk) {
			return uint32(i), true
		}
	}
	return 0, false
}
func (w *fakeWallet) SignMessage(pk *pocec.PublicKey, hash []byte) (*pocec.Signature, error) {
	return nil, errors.New("not needed")
}

// lock state as the API's wallet handlers see it (the keeper itself never asks); the rest of mining.PoCWallet is unused
func (w *fakeWallet) Unlock(p []byte) error {
	w.mu.Lock()
	defer w.mu.Unlock()
	if string(p) != goodPass {
		return errors.New("wrong passphrase")
	}
	w.locked = false
	return nil
}
func (w *fakeWallet) Lock()          { w.mu.Lock(); w.locked = true; w.mu.Unlock() }
func (w *fakeWallet) IsLocked() bool { w.mu.Lock(); defer w.mu.Unlock(); return w.locked }
func (w *fakeWallet) ChangePrivPassphrase(_, _ []byte, _ *keystore.ScryptOptions) error {
	return errors.New("unused")
}
func (w *fakeWallet) ChangePubPassphrase(_, _ []byte, _ *keystore.ScryptOptions) error {
	return errors.New("unused")
}
func (w *fakeWallet) ExportKeystore(string, []byte) ([]byte, error)  { return nil, errors.New("unused") }
func (w *fakeWallet) GetManagedAddrManager() []*keystore.AddrManager { return nil }
func (w *fakeWallet) ImportKeystore([]byte, []byte, []byte) (string, string, error) {
	return "", "", errors.New("unused")
}

const goodPass, badPass = "goodpass1", "badpass22"

// ------------------------------------------------------------------ gates

type park struct {
	point string
	sid   string
	m     bool
}

type gates struct {
	parked  chan park
	grant   chan struct{}
	mu      sync.Mutex
	records []park // record-only points (reported under the state lock)
	free    bool   // true: do not block (used while the keeper winds down)
	// StartStopStart schedule
	holdSpawn chan struct{}
	spawned   int
	alive     int // plotter goroutines between their "start" and "exit" points
	maxAlive  int
}

func (g *gates) fn(point, sid string, m bool) {
	if point == "spawn" {
		// the plotter goroutine exists but has not joined the keeper's wait group yet: held only by the
		// StartStopStart schedule
		g.mu.Lock()
		hold := g.holdSpawn
		g.spawned++
		g.mu.Unlock()
		if hold != nil {
			<-hold
		}
		return
	}
	if g.free {
		if point == "start" || point == "exit" {
			g.mu.Lock()
			if point == "start" {
				g.alive++
			} else {
				g.alive--
			}
			if g.alive > g.maxAlive {
				g.maxAlive = g.alive
			}
			g.mu.Unlock()
		}
		return
	}
	if point == "step1" || point == "step3" {
		g.mu.Lock()
		g.records = append(g.records, park{point, sid, m})
		g.mu.Unlock()
		return
	}
	g.parked <- park{point, sid, m}
	if point == "exit" {
		return
	}
	<-g.grant
}

const callTimeout = 8 * time.Second

var allFlags = []engine.WorkSpaceStateFlags{engine.SFRegistered, engine.SFPlotting, engine.SFReady, engine.SFMining}
var flagNames = map[string]engine.WorkSpaceStateFlags{"registered": engine.SFRegistered, "plotting": engine.SFPlotting, "ready": engine.SFReady, "mining": engine.SFMining}
var actNames = map[string]engine.ActionType{"Plot": engine.Plot, "Mine": engine.Mine, "Stop": engine.Stop, "Remove": engine.Remove, "Delete": engine.Delete}

type drv struct {
	sk           *capacity.SpaceKeeper
	reg          *registry
	g            *gates
	sids         map[string]string // w -> sid
	names        map[string]string // sid -> w
	dbs          map[string]*fakeDB
	at           string // where the plotter goroutine is: "none", a gate name, "inplot", "exited"
	running      bool
	cur          *fakeDB
	wal          *fakeWallet
	minerStarted func() bool
	srv          *api.Server // Api scenarios: the gRPC handlers over this keeper and a scripted miner
	miner        *fakeMiner
}

// fakeMiner: the PoC miner as the handlers see it (started or not).  Its Start follows OnStart of
// poc/engine/pocminer/miner/miner.go: with payout addresses configured, the keeper is started if it is not, and the
// miner is started only if that succeeded; its Stop leaves the keeper alone.
type fakeMiner struct {
	mu      sync.Mutex
	started bool
	calls   []string
	sk      *capacity.SpaceKeeper
}

func (m *fakeMiner) Start() error {
	m.mu.Lock()
	defer m.mu.Unlock()
	m.calls = append(m.calls, "Start")
	if m.started {
		return nil
	}
	if !m.sk.Started() {
		if err := m.sk.Start(); err != nil {
			return err
		}
	}
	m.started = true
	return nil
}
func (m *fakeMiner) Stop() error {
	m.mu.Lock()
	defer m.mu.Unlock()
	m.started = false
	m.calls = append(m.calls, "Stop")
	return nil
}
func (m *fakeMiner) Started() bool                               { m.mu.Lock(); defer m.mu.Unlock(); return m.started }
func (m *fakeMiner) Type() string                                { return "scripted" }
func (m *fakeMiner) SetPayoutAddresses([]massutil.Address) error { return nil }

// opt realminer: the real sync miner (poc/engine/pocminer/miner) instead of the scripted one.  It never gets to mine:
// its sync manager reports no peers, so its loop sleeps; what is exercised is its own Start (which starts the keeper
// first), Stop (which waits for its goroutine: up to one slot) and Started.
type idleChain struct{}

func (idleChain) BestBlockNode() *blockchain.BlockNode {
	return &blockchain.BlockNode{Hash: &wire.Hash{}}
}
func (idleChain) BestBlockHash() *wire.Hash { return &wire.Hash{} }
func (idleChain) BestBlockHeight() uint64   { return 0 }
func (idleChain) ProcessBlock(*massutil.Block) (bool, error) {
	return false, errors.New("unused")
}
func (idleChain) ChainID() *wire.Hash { return &wire.Hash{} }
func (idleChain) BlockWaiter(uint64) (<-chan *blockchain.BlockNode, error) {
	return nil, errors.New("unused")
}
func (idleChain) NewBlockTemplate([]massutil.Address, chan interface{}) error {
	return errors.New("unused")
}

type noPeers struct{}

func (noPeers) IsCaughtUp() bool { return false }
func (noPeers) PeerCount() int   { return 0 }

// apiRes names a handler's answer
func apiRes(res, msg string, err error) string {
	if res != "err" {
		return res
	}
	if st, ok := status.FromError(err); ok {
		switch int(st.Code()) {
		case api.ErrAPIMinerInternal:
			return "internal"
		case api.ErrAPIMinerSpaceNotFound:
			return "notfound"
		case api.ErrAPIMinerInvalidSpaceID, api.ErrAPIInvalidSpaceID:
			return "invalid"
		case api.ErrAPIMinerNoConfig:
			return "noconfig"
		case api.ErrAPIWalletIsMining:
			return "mining"
		case api.ErrAPIWalletInternal:
			return "walleterr"
		}
		return fmt.Sprintf("status-%d", int(st.Code()))
	}
	return "err"
}

func (d *drv) w(sid string) string {
	if n, ok := d.names[sid]; ok {
		return n
	}
	return "?" + sid
}

// waitPark waits for the plotter goroutine to reach its next park point (a gate or the scripted Plot()).
func (d *drv) waitPark() (park, bool) {
	select {
	case p := <-d.g.parked:
		d.at = p.point
		if p.point == "exit" {
			d.at = "exited"
		}
		return p, true
	case db := <-d.reg.inplot:
		d.at, d.cur = "inplot", db
		return park{point: "inplot", sid: capacity.NewSpaceID(db.ordinal, db.pk, db.bl).String()}, true
	case <-time.After(callTimeout):
		return park{point: "stuck"}, false
	}
}

func call(f func() error) (string, string) {
	ch := make(chan error, 1)
	pch := make(chan interface{}, 1)
	go func() {
		defer func() {
			if r := recover(); r != nil {
				pch <- r
			}
		}()
		ch <- f()
	}()
	select {
	case err := <-ch:
		if err != nil {
			return "err", err.Error()
		}
		return "ok", ""
	case r := <-pch:
		return "panic", fmt.Sprint(r)
	case <-time.After(callTimeout):
		return "hang", ""
	}
}

// windStop runs f - a call that stops the keeper (sk.Stop(), or an API handler that calls it) - while letting the
// plotter goroutine run from its gate to its exit, as the stop requires.  It returns f's result, its error text and
// the gates the plotter passed.
func (d *drv) windStop(f func() error) (string, string, []string) {
	sk := d.sk
	done := make(chan string, 1)
	msg := ""
	go func() {
		r, m := call(f)
		msg = m
		done <- r
	}()
	// the stop takes effect when the quit channel is closed: only then let the plotter run freely to its exit
	for k := 0; k < 2000 && !capacity.VerifQuitClosed(sk); k++ {
		select {
		case r := <-done:
			// f returned and the keeper was not stopped: the plotter stays where it is
			return r, msg, nil
		case <-time.After(time.Millisecond):
		}
	}
	passed := []string{}
	res := ""
	deadline := time.After(callTimeout + 2*time.Second)
wind:
	for {
		if d.at != "exited" && d.at != "none" && d.at != "inplot" {
			select {
			case d.g.grant <- struct{}{}:
			case r := <-done:
				res = r
				break wind
			case <-deadline:
				res = "hang"
				break wind
			}
		}
		select {
		case p := <-d.g.parked:
			passed = append(passed, p.point)
			d.at = p.point
			if p.point == "exit" {
				d.at = "exited"
			}
		case db := <-d.reg.inplot:
			d.at, d.cur = "inplot", db
			passed = append(passed, "inplot")
		case r := <-done:
			res = r
			break wind
		case <-deadline:
			res = "hang"
			break wind
		}
		if d.at == "exited" {
			select {
			case r := <-done:
				res = r
			case <-deadline:
				res = "hang"
			}
			break wind
		}
	}
	// the exit report is sent before the plotter's wg.Done, i.e. before Stop can return: when the select above
	// took Stop's return first, the report is already waiting
	if (res == "ok" || res == "err") && d.at != "exited" {
		select {
		case p := <-d.g.parked:
			passed = append(passed, p.point)
			d.at = p.point
			if p.point == "exit" {
				d.at = "exited"
			}
		case <-time.After(500 * time.Millisecond):
		}
	}
	if (res == "ok" || res == "err") && d.at != "exited" {
		return "plotter-not-exited", msg, passed
	}
	if res == "ok" || res == "err" {
		d.at = "none"
	}
	return res, msg, passed
}

func (d *drv) project(ev vh.Event) {
	snap := capacity.VerifSnap(d.sk, false)
	st := map[string]string{}
	infos, err := d.sk.WorkSpaceInfos(engine.SFAll)
	if err != nil {
		ev["qerr"] = err.Error()
	}
	list := []string{}
	for _, in := range infos {
		st[d.w(in.SpaceID)] = in.State.String()
		list = append(list, d.w(in.SpaceID))
	}
	ev["st"] = st
	ev["list"] = list
	// every flag set: WorkSpaceIDs and WorkSpaceInfos must agree with each other and with the states
	fq := map[string][]string{}
	agree := true
	for mask := 1; mask < 16; mask++ {
		var fl engine.WorkSpaceStateFlags
		name := ""
		for i, f := range allFlags {
			if mask&(1<<uint(i)) != 0 {
				fl |= f
				name += string("rpdm"[i])
			}
		}
		ids, _ := d.sk.WorkSpaceIDs(fl)
		inf, _ := d.sk.WorkSpaceInfos(fl)
		a := []string{}
		for _, id := range ids {
			a = append(a, d.w(id))
		}
		b := []string{}
		for _, in := range inf {
			b = append(b, d.w(in.SpaceID))
			if !fl.Contains(in.State.Flag()) {
				agree = false
			}
		}
		sort.Strings(a)
		sort.Strings(b)
		if fmt.Sprint(a) != fmt.Sprint(b) {
			agree = false
		}
		fq[name] = a
	}
	ev["fq"], ev["agree"] = fq, agree
	// what the miner is offered
	if d.sk.Started() {
		ctx, cancel := context.WithTimeout(context.Background(), 2*time.Second)
		proofs, err := d.sk.GetProofs(ctx, engine.SFMining, pocutil.Hash{}, false)
		cancel()
		off := []string{}
		if err == nil {
			for _, p := range proofs {
				off = append(off, d.w(p.SpaceID))
			}
		}
		sort.Strings(off)
		ev["offered"] = off
	}
	// bookkeeping (verif snapshot)
	idx := map[string][]string{}
	for sid, l := range snap.IndexStates {
		sort.Strings(l)
		idx[d.w(sid)] = l
	}
	inall := []string{}
	for sid := range snap.InAll {
		inall = append(inall, d.w(sid))
	}
	sort.Strings(inall)
	ev["idx"], ev["inall"] = idx, inall
	ev["chanlen"], ev["queuelen"] = snap.ChanLen, snap.QueueLen
	files := map[string]bool{}
	for w, db := range d.dbs {
		db.mu.Lock()
		files[w] = !db.deleted
		db.mu.Unlock()
		if db.inner != nil {
			files[w] = db.filesExist()
		}
	}
	ev["files"] = files
	ev["running"] = d.sk.Started()
	ev["at"] = d.at
	if d.srv != nil {
		// the same states as the API reports them, and the miner
		apist := map[string]string{}
		var resp *pb.WorkSpacesResponse
		r, msg := call(func() error {
			var err error
			resp, err = d.srv.GetCapacitySpaces(context.Background(), &empty.Empty{})
			return err
		})
		if r != "ok" {
			ev["apierr"] = r + " " + msg
		} else {
			for _, sp := range resp.Spaces {
				apist[d.w(sp.SpaceId)] = sp.State
			}
		}
		ev["apist"] = apist
		ev["miner"] = d.minerStarted()
		ev["locked"] = d.wal.IsLocked()
	}
}

func run(sc vh.Scenario, dir string, rec *vh.Rec) {
	rng := vh.Rng(sc.Seed)
	n := 3
	if v, ok := sc.Opt["spaces"].(float64); ok {
		n = int(v)
	}
	reg := &registry{dbs: map[string]*fakeDB{}, preplot: map[int64]bool{}, inplot: make(chan *fakeDB, 4)}
	reg.real, _ = sc.Opt["realdb"].(bool)
	init, _ := sc.Opt["init"].(map[string]interface{})
	for i := 0; i < n; i++ {
		if s, _ := init[fmt.Sprintf("w%d", i+1)].(string); s == "ready" {
			reg.preplot[int64(i)] = true
		}
	}
	for i := range massdb.DBBackendList {
		if massdb.DBBackendList[i].Typ == "massdb.v1" {
			massdb.DBBackendList[i].OpenDB = reg.open
			massdb.DBBackendList[i].CreateDB = reg.create
		}
	}
	g := &gates{parked: make(chan park, 4), grant: make(chan struct{})}
	capacity.VerifGateFn = g.fn
	pdir := filepath.Join(dir, "proofs")
	os.MkdirAll(pdir, 0o755)
	wal := &fakeWallet{rng: rng}
	ski, err := capacity.NewSpaceKeeperV1(&config.Config{Miner: &config.Miner{ProofDir: []string{pdir}}}, wal)
	if err != nil {
		rec.Dead, rec.Note = true, "NewSpaceKeeperV1: "+err.Error()
		return
	}
	sk := ski.(*capacity.SpaceKeeper)
	infos, err := sk.ConfigureByBitLength(map[int]int{24: n}, false, false)
	if err != nil || len(infos) != n {
		rec.Dead, rec.Note = true, fmt.Sprintf("configure: %v (%d spaces)", err, len(infos))
		return
	}
	d := &drv{sk: sk, reg: reg, g: g, sids: map[string]string{}, names: map[string]string{}, dbs: map[string]*fakeDB{}, at: "none"}
	sort.Slice(infos, func(i, j int) bool { return infos[i].Ordinal < infos[j].Ordinal })
	order := []string{}
	for i, in := range infos {
		w := fmt.Sprintf("w%d", i+1)
		d.sids[w], d.names[in.SpaceID] = in.SpaceID, w
	}
	for _, db := range reg.dbs {
		sid := capacity.NewSpaceID(db.ordinal, db.pk, db.bl).String()
		d.dbs[d.w(sid)] = db
	}
	ids, _ := sk.WorkSpaceIDs(engine.SFAll)
	for _, id := range ids {
		order = append(order, d.w(id))
	}
	rec.Conc = map[string]string{"order": fmt.Sprint(order)}
	for w, s := range d.sids {
		rec.Conc[w] = s[:16] + "..." + hex.EncodeToString([]byte{byte(len(s))})
	}
	if b, _ := sc.Opt["api"].(bool); b {
		d.miner = &fakeMiner{sk: sk}
		wal.locked = true // a node starts with a locked wallet
		d.wal = wal
		var pm mining.PoCMiner = d.miner
		if rm, _ := sc.Opt["realminer"].(bool); rm {
			addr, err := massutil.NewAddressWitnessScriptHash(make([]byte, 32), &coreconfig.ChainParams)
			if err != nil {
				rec.Dead, rec.Note = true, "payout address: "+err.Error()
				return
			}
			m, err := realminer.NewSyncMiner(false, idleChain{}, noPeers{}, sk, make(chan *wire.Hash, 1), []massutil.Address{addr})
			if err != nil {
				rec.Dead, rec.Note = true, "NewSyncMiner: "+err.Error()
				return
			}
			pm = m
			d.minerStarted = m.Started
		} else {
			d.minerStarted = d.miner.Started
		}
		d.srv = api.VerifServer(pm, wal, mining.NewConfigurableSpaceKeeperV1(sk))
	}
	// the first event fixes the initial state
	ev0 := vh.Event{"a": "Init", "order": order}
	d.project(ev0)
	rec.Emit(ev0)

	if mode, _ := sc.Opt["mode"].(string); mode == "startstopstart" {
		d.startStopStart(rec)
		rec.DoneAndExit(9)
	}
	if mode, _ := sc.Opt["mode"].(string); mode == "stopatpopped" {
		d.stopAtPopped(rec)
		rec.DoneAndExit(9)
	}
	if mode, _ := sc.Opt["mode"].(string); mode == "stopstop" {
		d.stopStop(rec)
		rec.DoneAndExit(9)
	}
	if mode, _ := sc.Opt["mode"].(string); mode == "conc" {
		d.concurrent(sc, rec, rng)
		rec.DoneAndExit(9)
	}
	for i, st := range sc.Steps {
		ev := vh.Event{"step": i + 1}
		for k, v := range st {
			ev[k] = v
		}
		a := st.A()
		switch a {
		case "P":
			// the plotter takes its next step: only if it is parked at a gate from which it can move without input
			if !(d.at == "start" || d.at == "loop" || d.at == "drained" || d.at == "popped" || d.at == "plotret" || d.at == "idle") {
				continue
			}
			if d.at == "idle" && capacity.VerifSnap(sk, false).ChanLen == 0 {
				continue // it would block in its select until a request arrives: nothing to observe
			}
		case "PlotEnd":
			if d.at != "inplot" || (reg.real && st.Str("out") != "complete") {
				continue
			}
		case "Start":
			if sk.Started() {
				continue
			}
		case "StopKeeper":
			if !sk.Started() || d.at == "popped" {
				continue
			}
		case "Api":
			if d.srv == nil || (st.Str("call") == "StopAll" && sk.Started() && d.at == "popped") {
				continue
			}
		}
		rec.Begin(ev)
		switch a {
		case "Act":
			w := st.Str("w")
			res, msg := call(func() error { return sk.ActOnWorkSpace(d.sids[w], actNames[st.Str("act")]) })
			ev["res"] = res
			if msg != "" {
				ev["err"] = msg
			}
			// a Stop of the plotting space ends the scripted plot: the plotter arrives at its next gate
			if d.at == "inplot" && res != "hang" {
				d.cur.mu.Lock()
				still := d.cur.plotting
				d.cur.mu.Unlock()
				if !still {
					if p, ok := d.waitPark(); ok {
						ev["gate"], ev["out"] = p.point, "aborted"
					} else {
						ev["gate"] = "stuck"
					}
				}
			}
		case "Bulk":
			var fl engine.WorkSpaceStateFlags
			for _, f := range vh.StrSeq(st["flags"]) {
				fl |= flagNames[f]
			}
			var errs map[string]error
			res, msg := call(func() error {
				var err error
				errs, err = sk.ActOnWorkSpaces(fl, actNames[st.Str("act")])
				return err
			})
			ev["res"] = res
			if msg != "" {
				ev["err"] = msg
			}
			rs := [][]string{}
			for sid, e := range errs {
				r := "ok"
				if e != nil {
					r = "err"
				}
				rs = append(rs, []string{d.w(sid), r})
			}
			sort.Slice(rs, func(i, j int) bool { return rs[i][0] < rs[j][0] })
			ev["results"] = rs
			if d.at == "inplot" && res != "hang" {
				d.cur.mu.Lock()
				still := d.cur.plotting
				d.cur.mu.Unlock()
				if !still {
					if p, ok := d.waitPark(); ok {
						ev["gate"], ev["out"] = p.point, "aborted"
					} else {
						ev["gate"] = "stuck"
					}
				}
			}
		case "Start":
			res, msg := call(func() error { return sk.Start() })
			ev["res"] = res
			if msg != "" {
				ev["err"] = msg
			}
			if res == "ok" {
				if p, ok := d.waitPark(); ok {
					ev["gate"] = p.point
				} else {
					ev["gate"] = "stuck"
				}
			}
		case "Api":
			// one gRPC handler (api/spaces.v1.go) over the real keeper and the scripted miner
			ctx := context.Background()
			cl, w := st.Str("call"), st.Str("w")
			sid := d.sids[w]
			if w == "wx" {
				sid = strings.Repeat("02", 33) + "-24" // well-formed, not configured
				if pk, _, e := (&fakeWallet{rng: vh.Rng(sc.Seed + 77)}).GenerateNewPublicKey(); e == nil {
					sid = hex.EncodeToString(pk.SerializeCompressed()) + "-24"
				}
			}
			var herr error
			f := func() error {
				switch cl {
				case "PlotAll":
					_, herr = d.srv.PlotCapacitySpaces(ctx, &empty.Empty{})
				case "PlotOne":
					_, herr = d.srv.PlotCapacitySpace(ctx, &pb.WorkSpaceRequest{SpaceId: sid})
				case "MineAll":
					_, herr = d.srv.MineCapacitySpaces(ctx, &empty.Empty{})
				case "MineOne":
					_, herr = d.srv.MineCapacitySpace(ctx, &pb.WorkSpaceRequest{SpaceId: sid})
				case "StopAll":
					_, herr = d.srv.StopCapacitySpaces(ctx, &empty.Empty{})
				case "StopOne":
					_, herr = d.srv.StopCapacitySpace(ctx, &pb.WorkSpaceRequest{SpaceId: sid})
				case "Lock":
					_, herr = d.srv.LockWallet(ctx, &empty.Empty{})
				case "Unlock":
					pp := badPass
					if st.Bool("good") {
						pp = goodPass
					}
					_, herr = d.srv.UnlockWallet(ctx, &pb.UnlockWalletRequest{Passphrase: pp})
				default:
					herr = errors.New("unknown call")
				}
				return herr
			}
			was := sk.Started()
			var res, msg string
			if cl == "StopAll" && was {
				var passed []string
				res, msg, passed = d.windStop(f)
				if passed != nil {
					ev["res"], ev["passed"] = apiRes(res, msg, herr), passed
					if msg != "" {
						ev["err"] = msg
					}
					break
				}
				// the handler returned without stopping the keeper: like any other call
			} else {
				res, msg = call(f)
			}
			ev["res"] = apiRes(res, msg, herr)
			if msg != "" {
				ev["err"] = msg
			}
			if res == "hang" {
				break
			}
			// a Stop of the plotting space ends the scripted plot: the plotter arrives at its next gate
			if d.at == "inplot" {
				d.cur.mu.Lock()
				still := d.cur.plotting
				d.cur.mu.Unlock()
				if !still {
					if p, ok := d.waitPark(); ok {
						ev["gate"], ev["out"] = p.point, "aborted"
					} else {
						ev["gate"] = "stuck"
					}
				}
			}
			// the handler started the keeper: its plotter goroutine arrives at its first gate
			if !was && sk.Started() {
				if p, ok := d.waitPark(); ok {
					ev["sgate"] = p.point
				} else {
					ev["sgate"] = "stuck"
				}
			}
		case "StopKeeper":
			res, _, passed := d.windStop(func() error { return sk.Stop() })
			ev["res"], ev["passed"] = res, passed
		case "P":
			d.g.grant <- struct{}{}
			p, ok := d.waitPark()
			ev["gate"] = p.point
			if !ok {
				ev["gate"] = "stuck"
			}
			if p.sid != "" {
				ev["w"] = d.w(p.sid)
				ev["m"] = p.m
			}
		case "PlotEnd":
			out := st.Str("out")
			d.cur.finishCh <- out
			p, ok := d.waitPark()
			ev["gate"] = p.point
			if !ok {
				ev["gate"] = "stuck"
			}
		case "Burst":
			// replay of the KeeperImpl wedge schedule: more Plot requests for a registered space than the request
			// channel holds, issued while another space is being plotted
			n := st.Int("n")
			snap0 := capacity.VerifSnap(sk, false)
			ev["chancap"], ev["n"] = snap0.ChanCap, n
			call(func() error { return sk.ActOnWorkSpace(d.sids["w1"], engine.Plot) })
			if r, _ := call(func() error { return sk.Start() }); r != "ok" {
				ev["res"] = "start-failed"
				break
			}
			reached := false
			for k := 0; k < 8 && !reached; k++ {
				p, ok := d.waitPark()
				if !ok {
					break
				}
				if p.point == "inplot" {
					reached = true
					break
				}
				d.g.grant <- struct{}{}
			}
			if !reached {
				ev["res"] = "no-plot"
				break
			}
			var returned, refused int32
			var wgb sync.WaitGroup
			for k := 0; k < n; k++ {
				wgb.Add(1)
				go func() {
					defer wgb.Done()
					// a request beyond the channel's capacity may be refused; it must not wait holding the state lock
					if sk.ActOnWorkSpace(d.sids["w2"], engine.Plot) != nil {
						atomic.AddInt32(&refused, 1)
					}
					atomic.AddInt32(&returned, 1)
				}()
			}
			allBack := make(chan struct{})
			go func() { wgb.Wait(); close(allBack) }()
			select {
			case <-allBack:
			case <-time.After(3 * time.Second):
			}
			ev["returned"], ev["refused"] = int(atomic.LoadInt32(&returned)), int(atomic.LoadInt32(&refused))
			// the plot ends; the plotter needs the state lock for step 3
			d.cur.finishCh <- "complete"
			d.g.free = true
			go func() {
				for {
					select {
					case <-d.g.parked:
						d.g.grant <- struct{}{}
					case <-d.reg.inplot:
					}
				}
			}()
			time.Sleep(300 * time.Millisecond)
			q, _ := call(func() error { _, err := sk.WorkSpaceInfos(engine.SFAll); return err })
			ev["after_plot_queries"] = q
			sres, _ := call(func() error { return sk.Stop() })
			ev["after_plot_stop"] = sres
			ev["res"] = "ok"
			rec.Emit(ev)
			rec.Note = "burst done"
			rec.DoneAndExit(9)
		default:
			ev["res"] = "unknown-action"
		}
		d.g.mu.Lock()
		recs := []string{}
		for _, r := range d.g.records {
			recs = append(recs, r.point+":"+d.w(r.sid))
		}
		d.g.records = nil
		d.g.mu.Unlock()
		ev["records"] = recs
		if ev["res"] != "hang" && ev["gate"] != "stuck" {
			// the queries of the projection take the keeper's state lock: if they do not come back the keeper is wedged
			pe := vh.Event{}
			done := make(chan struct{})
			go func() { defer close(done); d.project(pe) }()
			select {
			case <-done:
				for k, v := range pe {
					ev[k] = v
				}
			case <-time.After(callTimeout):
				ev["res"], ev["proj"] = "hang", "queries after this step never returned"
			}
		}
		rec.Emit(ev)
		if ev["res"] == "hang" || ev["gate"] == "stuck" || ev["res"] == "panic" {
			// the keeper is wedged: nothing more can be observed in this process; let it be torn down
			rec.Note = "wedged at step " + fmt.Sprint(i+1)
			rec.DoneAndExit(7)
		}
	}
	// wind down so that the child process can continue with the next scenario
	if sk.Started() {
		go sk.Stop()
		for k := 0; k < 2000 && !capacity.VerifQuitClosed(sk); k++ {
			time.Sleep(time.Millisecond)
		}
		t := time.After(3 * time.Second)
	down:
		for d.at != "exited" {
			if d.at == "inplot" && !reg.real {
				select {
				case d.cur.finishCh <- "aborted":
				default:
				}
			}
			select {
			case d.g.grant <- struct{}{}:
			case p := <-d.g.parked:
				if p.point == "exit" {
					break down
				}
				d.at = p.point
			case db := <-d.reg.inplot:
				d.at, d.cur = "inplot", db
			case <-t:
				rec.DoneAndExit(8) // cannot wind down cleanly: a fresh child continues
			}
		}
	}
}

// stopStop (opt realdb): a space is being plotted by the real engine; StopWS of that space and a stop of the keeper
// arrive together.  The keeper asks the engine to stop the plot on both paths (StopWS under the state lock, the
// plotter's monitor on the quit signal): both must return and nothing may panic.  The plot's held window is released
// only when both requests have reached the engine, so that the second meets a plot that has not ended yet.
func (d *drv) stopStop(rec *vh.Rec) {
	sk, g := d.sk, d.g
	ev := vh.Event{"step": 1, "a": "StopStop"}
	rec.Begin(ev)
	g.mu.Lock()
	g.free = true
	g.mu.Unlock()
	if r, _ := call(func() error { return sk.ActOnWorkSpace(d.sids["w1"], engine.Plot) }); r != "ok" {
		ev["res"] = "plot-" + r
		rec.Emit(ev)
		return
	}
	sk.Start()
	select {
	case db := <-d.reg.inplot:
		d.cur = db
	case <-time.After(callTimeout):
		ev["res"] = "no-plot"
		rec.Emit(ev)
		return
	}
	d.reg.holdStops = 2
	a, b := make(chan string, 1), make(chan string, 1)
	go func() { r, _ := call(func() error { return sk.ActOnWorkSpace(d.sids["w1"], engine.Stop) }); a <- r }()
	time.Sleep(20 * time.Millisecond)
	go func() { r, _ := call(func() error { return sk.Stop() }); b <- r }()
	// if only one request reaches the engine the window is let go after a while (nothing to race with then)
	go func() {
		time.Sleep(1500 * time.Millisecond)
		d.cur.mu.Lock()
		rel := d.cur.release
		d.cur.mu.Unlock()
		if rel != nil {
			rel()
		}
	}()
	ev["stop_space"], ev["stop_keeper"] = <-a, <-b
	d.cur.mu.Lock()
	ev["stops_at_engine"] = d.cur.stopsSeen
	d.cur.mu.Unlock()
	pe := vh.Event{}
	done := make(chan struct{})
	go func() { defer close(done); d.project(pe) }()
	select {
	case <-done:
		ev["st"] = pe["st"]
		ev["res"] = "ok"
	case <-time.After(callTimeout):
		ev["res"] = "hang"
	}
	rec.Emit(ev)
}

// stopAtPopped (opt realdb): the keeper is stopped while the plotter has popped a request and has not yet begun to
// plot it.  Records whether the stop still returns and whether the plot was run to its end regardless (the monitor's
// StopPlot finds no plot to stop yet; nothing stops the one that starts afterwards).
func (d *drv) stopAtPopped(rec *vh.Rec) {
	sk := d.sk
	ev := vh.Event{"step": 1, "a": "StopAtPopped"}
	rec.Begin(ev)
	call(func() error { return sk.ActOnWorkSpace(d.sids["w1"], engine.Plot) })
	sk.Start()
	reached := false
	for k := 0; k < 8 && !reached; k++ {
		p, ok := d.waitPark()
		if !ok {
			break
		}
		if p.point == "popped" {
			reached = true
			break
		}
		d.g.grant <- struct{}{}
	}
	if !reached {
		ev["res"] = "no-pop"
		rec.Emit(ev)
		return
	}
	stopped := make(chan string, 1)
	t0 := time.Now()
	go func() { r, _ := call(func() error { return sk.Stop() }); stopped <- r }()
	for k := 0; k < 2000 && !capacity.VerifQuitClosed(sk); k++ {
		time.Sleep(time.Millisecond)
	}
	time.Sleep(20 * time.Millisecond) // the monitor (started after the pop) has seen the quit signal by now, if it exists
	d.g.mu.Lock()
	d.g.free = true
	d.g.mu.Unlock()
	windowHeld := false
	go func() {
		// the plot, if one starts, is let run freely
		select {
		case db := <-d.reg.inplot:
			windowHeld = true
			db.mu.Lock()
			rel := db.release
			db.mu.Unlock()
			if rel != nil {
				rel()
			}
		case <-time.After(callTimeout):
		}
	}()
	d.g.grant <- struct{}{}
	select {
	case r := <-stopped:
		ev["stop"] = r
	case <-time.After(callTimeout + 2*time.Second):
		ev["stop"] = "hang"
	}
	ev["stop_ms"] = int(time.Since(t0) / time.Millisecond)
	ev["plot_started_after_stop"] = windowHeld
	if db := d.dbs["w1"]; db != nil && db.inner != nil {
		_, plotted, prog := db.inner.Progress()
		ev["plotted_to_the_end"], ev["progress"] = plotted, prog
	}
	ev["res"] = "ok"
	rec.Emit(ev)
}

// startStopStart: the keeper is stopped before its freshly spawned plotter goroutine has run a single instruction, and
// started again.  Stop must not return while a plotter goroutine of the stopped run is still to come to life, and there
// must never be two plotters.
func (d *drv) startStopStart(rec *vh.Rec) {
	sk, g := d.sk, d.g
	ev := vh.Event{"step": 1, "a": "StartStopStart"}
	rec.Begin(ev)
	hold := make(chan struct{})
	g.mu.Lock()
	g.free, g.holdSpawn = true, hold
	g.mu.Unlock()
	sk.Start()
	waitN := func(n int) bool {
		for i := 0; i < 2000; i++ {
			g.mu.Lock()
			k := g.spawned
			g.mu.Unlock()
			if k >= n {
				return true
			}
			time.Sleep(time.Millisecond)
		}
		return false
	}
	ev["spawned1"] = waitN(1)
	stopped := make(chan string, 1)
	go func() { r, _ := call(func() error { return sk.Stop() }); stopped <- r }()
	early := false
	select {
	case <-stopped:
		early = true // Stop returned although the plotter goroutine of this run has not even begun
	case <-time.After(300 * time.Millisecond):
	}
	ev["stop_returned_before_plotter_ran"] = early
	if early {
		sk.Start()
		ev["spawned2"] = waitN(2)
	}
	g.mu.Lock()
	g.holdSpawn = nil
	g.mu.Unlock()
	close(hold)
	if !early {
		select {
		case r := <-stopped:
			ev["stop"] = r
		case <-time.After(callTimeout):
			ev["stop"] = "hang"
		}
		sk.Start()
	}
	time.Sleep(200 * time.Millisecond)
	g.mu.Lock()
	ev["plotters_alive"], ev["max_plotters_alive"] = g.alive, g.maxAlive
	g.mu.Unlock()
	r, _ := call(func() error { return sk.Stop() })
	ev["final_stop"] = r
	time.Sleep(100 * time.Millisecond)
	g.mu.Lock()
	ev["plotters_after_stop"] = g.alive
	g.mu.Unlock()
	ev["res"] = "ok"
	rec.Emit(ev)
}

// concurrent: several callers issue the scenario's requests at the same time while the plotter runs freely and
// plots end on their own after a moment.  Every call must return, stopping the keeper must terminate, nothing may
// panic (C13: "for all concurrent callers").
func (d *drv) concurrent(sc vh.Scenario, rec *vh.Rec, rng interface{ Intn(int) int }) {
	sk := d.sk
	ev := vh.Event{"step": 1, "a": "Conc"}
	rec.Begin(ev)
	d.g.free = true
	stopPlots := make(chan struct{})
	go func() {
		for {
			select {
			case db := <-d.reg.inplot:
				go func(db *fakeDB) {
					time.Sleep(time.Duration(1+rng.Intn(4)) * time.Millisecond)
					out := "complete"
					if rng.Intn(3) == 0 {
						out = "aborted"
					}
					select {
					case db.finishCh <- out:
					default:
					}
				}(db)
			case <-stopPlots:
				return
			}
		}
	}()
	threads, _ := sc.Opt["threads"].([]interface{})
	var wg sync.WaitGroup
	results := make(chan string, 4096)
	sk.Start()
	for ti, t := range threads {
		ops, _ := t.([]interface{})
		wg.Add(1)
		go func(ti int, ops []interface{}) {
			defer wg.Done()
			for _, o := range ops {
				st := vh.Step(o.(map[string]interface{}))
				r, msg := call(func() error {
					switch st.A() {
					case "Act":
						return sk.ActOnWorkSpace(d.sids[st.Str("w")], actNames[st.Str("act")])
					case "Bulk":
						var fl engine.WorkSpaceStateFlags
						for _, f := range vh.StrSeq(st["flags"]) {
							fl |= flagNames[f]
						}
						_, err := sk.ActOnWorkSpaces(fl, actNames[st.Str("act")])
						return err
					case "Query":
						var fl engine.WorkSpaceStateFlags
						for _, f := range vh.StrSeq(st["flags"]) {
							fl |= flagNames[f]
						}
						if _, err := sk.WorkSpaceIDs(fl); err != nil {
							return err
						}
						_, err := sk.WorkSpaceInfos(fl)
						return err
					case "StartK":
						sk.Start() // "already started" is an answer, not a failure
						return nil
					case "StopK":
						sk.Stop()
						return nil
					case "Proofs":
						ctx, cancel := context.WithTimeout(context.Background(), 2*time.Second)
						defer cancel()
						_, err := sk.GetProofs(ctx, engine.SFMining, pocutil.Hash{}, false)
						return err
					case "Reader":
						var fl engine.WorkSpaceStateFlags
						for _, f := range vh.StrSeq(st["flags"]) {
							fl |= flagNames[f]
						}
						ctx, cancel := context.WithTimeout(context.Background(), time.Duration(st.Int("ms"))*time.Millisecond)
						defer cancel()
						rd, err := sk.GetProofsReader(ctx, fl, pocutil.Hash{}, false)
						if err != nil {
							return nil // "not running" is an answer
						}
						for {
							if _, e := rd.Read(); e != nil {
								return nil
							}
						}
					}
					return nil
				})
				if r == "hang" || r == "panic" {
					results <- fmt.Sprintf("thread %d %s(%v): %s %s", ti+1, st.A(), map[string]interface{}(st), r, msg)
					return
				}
			}
		}(ti, ops)
	}
	done := make(chan struct{})
	go func() { wg.Wait(); close(done) }()
	res := "ok"
	select {
	case <-done:
	case <-time.After(3 * callTimeout):
		res = "hang"
	}
	close(results)
	bad := []string{}
	for r := range results {
		bad = append(bad, r)
		if strings.Contains(r, "panic") {
			res = "panic"
		} else if res == "ok" {
			res = "hang"
		}
	}
	if res == "ok" {
		if r, _ := call(func() error {
			if sk.Started() {
				return sk.Stop()
			}
			return nil
		}); r != "ok" {
			res, bad = r, append(bad, "stopping the keeper: "+r)
		}
	}
	if res == "ok" {
		if r, _ := call(func() error { _, err := sk.WorkSpaceInfos(engine.SFAll); return err }); r == "hang" || r == "panic" {
			res, bad = r, append(bad, "query after stop: "+r)
		}
	}
	close(stopPlots)
	ev["res"], ev["bad"] = res, bad
	rec.Emit(ev)
}

func main() {
	flag.Parse()
	vh.Main(run)
}
