package main

import (
	"context"
	"errors"

	"github.com/massnetorg/mass-core/poc/chiapos"
	"github.com/massnetorg/mass-core/poc/pocutil"

	engine "massnet.org/mass/poc/engine.v2"
)

// the chia miner starts its space keeper but talks to the collectors through the superior: a keeper that only exists
type keeper struct{ started bool }

func (k *keeper) Start() error  { k.started = true; return nil }
func (k *keeper) Stop() error   { k.started = false; return nil }
func (k *keeper) Started() bool { return k.started }
func (k *keeper) Type() string  { return "scripted" }
func (k *keeper) WorkSpaceIDs(engine.WorkSpaceStateFlags) ([]string, error) {
	return nil, nil
}
func (k *keeper) WorkSpaceInfos(engine.WorkSpaceStateFlags) ([]engine.WorkSpaceInfo, error) {
	return nil, nil
}
func (k *keeper) GetQuality(context.Context, string, pocutil.Hash) ([]*engine.WorkSpaceQuality, error) {
	return nil, nil
}
func (k *keeper) GetQualities(context.Context, engine.WorkSpaceStateFlags, pocutil.Hash) ([]*engine.WorkSpaceQuality, error) {
	return nil, nil
}
func (k *keeper) GetQualityReader(context.Context, string, pocutil.Hash) (engine.QualityReader, error) {
	return nil, errors.New("unused")
}
func (k *keeper) GetQualitiesReader(context.Context, engine.WorkSpaceStateFlags, pocutil.Hash) (engine.QualityReader, error) {
	return nil, errors.New("unused")
}
func (k *keeper) GetProof(context.Context, string, pocutil.Hash, uint32) (*engine.WorkSpaceProof, error) {
	return nil, errors.New("unused")
}
func (k *keeper) GetProofs(context.Context, []string, pocutil.Hash, []uint32) ([]*engine.WorkSpaceProof, error) {
	return nil, errors.New("unused")
}
func (k *keeper) GetProofReader(context.Context, string, pocutil.Hash, uint32) (engine.ProofReader, error) {
	return nil, errors.New("unused")
}
func (k *keeper) GetProofsReader(context.Context, []string, pocutil.Hash, []uint32) (engine.ProofReader, error) {
	return nil, errors.New("unused")
}
func (k *keeper) ActOnWorkSpace(string, engine.ActionType) error { return nil }
func (k *keeper) ActOnWorkSpaces(engine.WorkSpaceStateFlags, engine.ActionType) (map[string]error, error) {
	return nil, nil
}
func (k *keeper) SignHash(string, [32]byte) (*chiapos.G2Element, error) { return nil, errors.New("unused") }
func (k *keeper) GetPrivateKey(string) (*chiapos.PrivateKey, error)      { return nil, errors.New("unused") }
