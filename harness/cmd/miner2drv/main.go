// miner2drv runs the real chia miner (poc/engine.v2/pocminer/miner) against a scripted chain, the real LocalSuperior of
// package fractal and scripted collectors subscribed to it.  A round (specs/Miner2.tla) is a chain template, the
// quality reports the collectors send when the quality task reaches them (each for a slot, bound or not), per slot how
// many of the reported qualities exceed the target (the target function is built from the real chia qualities), a
// competing tip, a stop request and the answer of ProcessBlock.  Recorded: which collector is asked for the proof and
// the signature, and every block handed to ProcessBlock, decoded.
package main

import (
	"context"
	"crypto/sha256"
	"errors"
	"flag"
	"fmt"
	"math/big"
	"os"
	"sort"
	"sync"
	"time"

	"github.com/google/uuid"
	"github.com/massnetorg/mass-core/blockchain"
	"github.com/massnetorg/mass-core/config"
	"github.com/massnetorg/mass-core/logging"
	"github.com/massnetorg/mass-core/massutil"
	"github.com/massnetorg/mass-core/poc"
	"github.com/massnetorg/mass-core/poc/chiapos"
	"github.com/massnetorg/mass-core/poc/chiawallet"
	"github.com/massnetorg/mass-core/poc/pocutil"
	"github.com/massnetorg/mass-core/wire"

	"massnet.org/mass/fractal"
	"massnet.org/mass/fractal/protocol"
	engine "massnet.org/mass/poc/engine.v2"
	"massnet.org/mass/poc/engine.v2/pocminer"
	_ "massnet.org/mass/poc/engine.v2/pocminer/miner"

	"verifharness/vh"
)


const (
	slotSec = poc.PoCSlot
	W       = 4 // slot offsets 0..W-1 carry a scripted target; every other slot has an unreachable target
	kSize   = 32
	baseH   = 1500000 // above MASSIP0002, as the chia miner requires
)

var challenge = pocutil.Hash(sha256.Sum256([]byte("miner2drv challenge")))

// one scripted plot per quality name: local key, plot key = local + farmer (as chia aggregates them), pool key
type plot struct {
	name    string
	localSk *chiapos.PrivateKey
	plotPk  *chiapos.G1Element
	qbytes  []byte
}

var (
	scheme            = chiapos.NewAugSchemeMPL()
	farmerSk, poolSk  *chiapos.PrivateKey
	farmerPk, poolPk  *chiapos.G1Element
	plots             = map[string]*plot{}
	qNames            = []string{"qa", "qb", "qc", "qd", "qe"}
)

func mustKey(seed string) (*chiapos.PrivateKey, *chiapos.G1Element) {
	sd := sha256.Sum256([]byte(seed))
	sk, err := scheme.KeyGen(sd[:])
	if err != nil {
		vh.Fatal("bls keygen: %v", err)
	}
	pk, err := sk.GetG1()
	if err != nil {
		vh.Fatal("bls g1: %v", err)
	}
	return sk, pk
}

func initKeys() {
	farmerSk, farmerPk = mustKey("miner2 farmer")
	poolSk, poolPk = mustKey("miner2 pool")
	for _, n := range qNames {
		lsk, lpk := mustKey("miner2 local " + n)
		ppk, err := lpk.Add(farmerPk)
		if err != nil {
			vh.Fatal("g1 add: %v", err)
		}
		qb := sha256.Sum256([]byte("quality " + n))
		plots[n] = &plot{name: n, localSk: lsk, plotPk: ppk, qbytes: qb[:]}
	}
}

type item struct {
	Q     string // quality / plot name
	C     string // reporting collector
	Off   int    // slot offset the quality is reported for
	Bound bool
}

type round struct {
	idx    int
	H      uint64
	Prev   string
	Items  []item
	NOver  []int
	Tip    string // none | switched | better | same
	TipMs  int
	Res    string
	Again  int
	StopMs int

	first    time.Time
	B        int64
	waiters  []chan *blockchain.BlockNode
	resulted bool
	reserved int
	over     bool
	timers   []*time.Timer
	sigHash  map[string]pocutil.Hash // what each plot was asked to sign
}

func hashOf(s string) wire.Hash { return wire.Hash(sha256.Sum256([]byte(s))) }

type world struct {
	mu      sync.Mutex
	rec     *vh.Rec
	rounds  []*round
	idx     int
	step    int
	stopReq chan int
	allDone chan struct{}
	doneFlg bool
	closed  bool
	t0      time.Time
	nAcc    int
	nNew    int
	ls      *fractal.LocalSuperior
}

func (w *world) emit(ev vh.Event) {
	if w.closed {
		return
	}
	ev["step"] = w.step
	w.step++
	w.rec.Emit(ev)
}

// lastServed: the round of the template the miner was served last (it may already be over for the chain)
func (w *world) lastServed() *round {
	var r *round
	for _, x := range w.rounds {
		if !x.first.IsZero() {
			r = x
		}
	}
	return r
}

func (w *world) cur() *round {
	if w.idx < len(w.rounds) {
		return w.rounds[w.idx]
	}
	return nil
}

func (w *world) advance(r *round) {
	if r.over {
		return
	}
	r.over = true
	for _, t := range r.timers {
		t.Stop()
	}
	if w.cur() == r {
		w.idx++
	}
	if w.idx >= len(w.rounds) && !w.doneFlg {
		w.doneFlg = true
		close(w.allDone)
	}
}

func nowSlot() int64 { return time.Now().Unix() / slotSec }

func massQuality(q string, slot int64, h uint64) *big.Int {
	return poc.GetQuality(poc.Q1FactorChia(kSize), poc.HashValChia(plots[q].qbytes, uint64(slot), h))
}

// the qualities reported for slot offset off, best first
func (r *round) ranked(off int) []string {
	names := []string{}
	for _, it := range r.Items {
		if it.Off == off {
			names = append(names, it.Q)
		}
	}
	slot := r.B + int64(off)
	sort.Slice(names, func(i, j int) bool { return massQuality(names[i], slot, r.H).Cmp(massQuality(names[j], slot, r.H)) > 0 })
	return names
}

var unreachable = new(big.Int).Lsh(big.NewInt(1), 255)

func (r *round) target(slot int64) *big.Int {
	off := slot - r.B
	if off < 0 || off >= W {
		return unreachable
	}
	names := r.ranked(int(off))
	n := r.NOver[off]
	if len(names) == 0 {
		return unreachable
	}
	if n <= 0 {
		return massQuality(names[0], slot, r.H)
	}
	if n >= len(names) {
		return new(big.Int).Sub(massQuality(names[len(names)-1], slot, r.H), big.NewInt(1))
	}
	return massQuality(names[n], slot, r.H)
}

func (w *world) node(r *round, sibling bool) *blockchain.BlockNode {
	name := r.Prev
	if sibling {
		name += "-sibling"
	}
	h := hashOf(name)
	return &blockchain.BlockNode{Hash: &h, Height: r.H - 1, CapSum: big.NewInt(1000), Timestamp: time.Unix((r.B-1)*slotSec, 0), Quality: big.NewInt(10)}
}

// ---------------------------------------------------------------- scripted chain

type chain struct{ w *world }

func (c *chain) BestBlockNode() *blockchain.BlockNode {
	c.w.mu.Lock()
	defer c.w.mu.Unlock()
	r := c.w.cur()
	if r == nil {
		r = c.w.rounds[len(c.w.rounds)-1]
		return c.w.node(r, true)
	}
	if r.B == 0 {
		r.B = nowSlot()
	}
	return c.w.node(r, r.Tip == "switched")
}
func (c *chain) BestBlockHash() *wire.Hash { return c.BestBlockNode().Hash }
func (c *chain) BestBlockHeight() uint64   { return c.BestBlockNode().Height }
func (c *chain) ChainID() *wire.Hash       { h := hashOf("chain"); return &h }

func (c *chain) BlockWaiter(height uint64) (<-chan *blockchain.BlockNode, error) {
	c.w.mu.Lock()
	defer c.w.mu.Unlock()
	ch := make(chan *blockchain.BlockNode, 1)
	if r := c.w.cur(); r != nil {
		r.waiters = append(r.waiters, ch)
	}
	return ch, nil
}

func (c *chain) NewBlockTemplate(addrs []massutil.Address, ch chan interface{}) error {
	w := c.w
	w.mu.Lock()
	defer w.mu.Unlock()
	r := w.cur()
	if r != nil && r.resulted {
		if r.reserved >= r.Again {
			w.advance(r)
			r = w.cur()
		} else {
			r.reserved++
		}
	}
	if r == nil {
		return errors.New("scripted chain: no further template")
	}
	if r.first.IsZero() {
		r.first = time.Now()
		if r.B == 0 {
			r.B = nowSlot()
		}
		order := make([]interface{}, 0, W)
		for off := 0; off < W; off++ {
			order = append(order, r.ranked(off))
		}
		its := make([]interface{}, 0)
		for _, it := range r.Items {
			its = append(its, map[string]interface{}{"q": it.Q, "c": it.C, "off": it.Off, "bound": it.Bound})
		}
		w.emit(vh.Event{"ev": "Tpl", "round": r.idx, "h": r.H, "prev": r.Prev, "items": its, "order": order, "nover": r.NOver,
			"tip": r.Tip, "tipms": r.TipMs, "res": r.Res, "again": r.Again, "stopms": r.StopMs})
		rr := r
		if r.Tip == "better" || r.Tip == "same" {
			r.timers = append(r.timers, time.AfterFunc(time.Duration(r.TipMs)*time.Millisecond, func() { w.tipArrives(rr) }))
		}
		if r.StopMs >= 0 {
			r.timers = append(r.timers, time.AfterFunc(time.Duration(r.StopMs)*time.Millisecond, func() {
				select {
				case w.stopReq <- rr.idx:
				default:
				}
			}))
		}
		lastOpen := 0
		for off, n := range r.NOver {
			if n > 0 {
				lastOpen = off
			}
		}
		r.timers = append(r.timers, time.AfterFunc(time.Duration((lastOpen+2)*slotSec+3)*time.Second, func() {
			w.mu.Lock()
			defer w.mu.Unlock()
			if !rr.over {
				w.emit(vh.Event{"ev": "Expire", "round": rr.idx, "ms": time.Since(rr.first).Milliseconds(), "abs": time.Since(w.t0).Milliseconds()})
				n := w.node(rr, true)
				n.CapSum = big.NewInt(3000)
				for _, ch := range rr.waiters {
					select {
					case ch <- n:
					default:
					}
				}
				rr.waiters = nil
				w.advance(rr)
			}
		}))
	}
	rr := r
	prev := hashOf(r.Prev)
	pt := &blockchain.PoCTemplate{
		Height:    r.H,
		Timestamp: time.Unix(r.B*slotSec, 0),
		Previous:  prev,
		Challenge: wire.Hash(challenge),
		GetTarget: func(t time.Time) *big.Int { return rr.target(t.Unix() / slotSec) },
		PassBinding: func(p blockchain.Proof) bool {
			for _, it := range rr.Items {
				if string(plots[it.Q].plotPk.SerializeCompressed()) == string(p.PlotPublicKey()) {
					return it.Bound
				}
			}
			return false
		},
	}
	coinbase := wire.NewMsgTx()
	coinbase.AddTxIn(wire.NewTxIn(wire.NewOutPoint(&wire.Hash{}, wire.MaxPrevOutIndex), nil))
	coinbase.AddTxOut(wire.NewTxOut(1000+int64(r.idx), []byte{0x51}))
	pt.GetCoinbase = func(blockchain.Proof, massutil.Amount) (*massutil.Tx, error) { return massutil.NewTx(coinbase), nil }
	hdr := wire.NewEmptyBlockHeader()
	hdr.ChainID = hashOf("chain")
	hdr.Version = 1
	hdr.Height = r.H
	hdr.Previous = prev
	hdr.Timestamp = pt.Timestamp
	blk := wire.NewMsgBlock(hdr)
	blk.AddTransaction(coinbase)
	cbh := coinbase.TxHash()
	bt := &blockchain.BlockTemplate{Block: blk, TotalFee: massutil.ZeroAmount(), Height: r.H, ValidPayAddress: true,
		MerkleCache: []*wire.Hash{&cbh}, WitnessMerkleCache: []*wire.Hash{&cbh}}
	ch <- pt
	ch <- bt
	return nil
}

func (w *world) tipArrives(r *round) {
	w.mu.Lock()
	defer w.mu.Unlock()
	if r.over {
		return
	}
	n := w.node(r, true)
	if r.Tip == "better" {
		n.CapSum = big.NewInt(2000)
	} else {
		n.CapSum = big.NewInt(500)
	}
	w.emit(vh.Event{"ev": "Tip", "round": r.idx, "kind": r.Tip, "ms": time.Since(r.first).Milliseconds(), "abs": time.Since(w.t0).Milliseconds()})
	ws := r.waiters
	r.waiters = nil
	for _, ch := range ws {
		select {
		case ch <- n:
		default:
		}
	}
	if r.Tip == "better" {
		w.advance(r)
	}
}

func (c *chain) ProcessBlock(b *massutil.Block) (bool, error) {
	w := c.w
	now := time.Now()
	w.mu.Lock()
	defer w.mu.Unlock()
	h := b.MsgBlock().Header
	ev := vh.Event{"ev": "Submit", "h": h.Height, "round": -1, "q": "unknown", "prev": "unknown"}
	var r *round
	for _, x := range w.rounds {
		if hashOf(x.Prev) == h.Previous {
			r = x
		}
	}
	if r == nil || r.first.IsZero() {
		ev["res"] = "reject"
		w.emit(ev)
		return false, errors.New("unknown parent")
	}
	ev["round"], ev["prev"] = r.idx, r.Prev
	ts := h.Timestamp
	ev["off"] = ts.Unix()/slotSec - r.B
	ev["aligned"] = ts.Unix()%slotSec == 0 && ts.Nanosecond() == 0
	ev["early"] = !now.After(ts)
	ev["targetok"] = h.Target != nil && h.Target.Cmp(r.target(ts.Unix()/slotSec)) == 0
	ev["challok"] = h.Challenge == wire.Hash(challenge)
	ev["hok"] = h.Height == r.H
	cp, _ := h.Proof.(*poc.ChiaProof)
	for _, n := range qNames {
		p := plots[n]
		if pk, ok := h.PubKey.(*chiapos.G1Element); ok && pk != nil && pk.Equals(p.plotPk) {
			ev["q"] = n
			ev["proofok"] = cp != nil && string(cp.Encode()) == string(poc.NewChiaProof(proofOf(n)).Encode())
			sigok, _ := h.VerifySig() // aggregate of the plot's local signature and the farmer's, under the plot key
			ev["sigok"] = sigok
			// the collector was asked to sign exactly SHA256(PoC hash) of this header
			if ph, err := h.PoCHash(); err == nil {
				ev["sighashok"] = r.sigHash[n] == pocutil.SHA256(ph[:])
			}
		}
	}
	ev["ms"] = now.Sub(r.first).Milliseconds()
	ev["res"] = r.Res
	w.emit(ev)
	if !r.resulted {
		r.resulted = true
		if r.Again == 0 {
			w.advance(r)
		}
	}
	switch r.Res {
	case "accept":
		w.nAcc++
		return false, nil
	case "orphan":
		return true, nil
	}
	return false, errors.New("scripted rejection")
}

type syncMgr struct{}

func (syncMgr) IsCaughtUp() bool { return true }
func (syncMgr) PeerCount() int   { return 3 }

func proofOf(q string) *chiapos.ProofOfSpace {
	p := plots[q]
	pb := sha256.Sum256([]byte("proof " + q))
	return &chiapos.ProofOfSpace{Challenge: challenge, PoolPublicKey: poolPk, PlotPublicKey: p.plotPk, KSize: kSize, Proof: append(pb[:], pb[:]...)}
}

// ---------------------------------------------------------------- scripted collectors (subscribed at the real superior)

type collector struct {
	w    *world
	name string
	id   uuid.UUID
}

func (c *collector) ID() uuid.UUID { return c.id }

func (c *collector) RequestQualities(ctx context.Context, req *protocol.RequestQualities) error {
	c.w.mu.Lock()
	r := c.w.cur()
	var qs []*protocol.Quality
	if r != nil && req.Height == r.H {
		for i, it := range r.Items {
			if it.C != c.name {
				continue
			}
			p := plots[it.Q]
			qs = append(qs, &protocol.Quality{WorkSpaceQuality: &engine.WorkSpaceQuality{SpaceID: "sp-" + it.Q, PublicKey: p.plotPk, PoolPublicKey: poolPk,
				Index: uint32(10 + i), KSize: kSize, Quality: p.qbytes, PlotID: hashOf("plot" + it.Q)}, Slot: uint64(r.B + int64(it.Off))})
		}
		c.w.emit(vh.Event{"ev": "Qreq", "round": r.idx, "c": c.name, "n": len(qs)})
	}
	c.w.mu.Unlock()
	if len(qs) > 0 {
		go c.w.ls.ReportQualities(ctx, c.id, &protocol.ReportQualities{TaskID: req.TaskID, Qualities: qs})
	}
	return nil
}

func (c *collector) RequestProof(ctx context.Context, req *protocol.RequestProof) error {
	q := req.SpaceID
	if len(q) > 3 {
		q = q[3:]
	}
	c.w.mu.Lock()
	ri := -1
	if r := c.w.lastServed(); r != nil {
		ri = r.idx
	}
	c.w.emit(vh.Event{"ev": "ProofReq", "round": ri, "c": c.name, "q": q, "index": req.Index, "challok": req.Challenge == challenge, "abs": time.Since(c.w.t0).Milliseconds()})
	c.w.mu.Unlock()
	if plots[q] == nil {
		return nil
	}
	pr := &protocol.Proof{SpaceID: req.SpaceID, Proof: proofOf(q), PublicKey: plots[q].plotPk, Ordinal: engine.UnknownOrdinal}
	go c.w.ls.ReportProof(ctx, c.id, &protocol.ReportProof{TaskID: req.TaskID, Proof: pr})
	return nil
}

func (c *collector) RequestSignature(ctx context.Context, req *protocol.RequestSignature) error {
	q := req.SpaceID
	if len(q) > 3 {
		q = q[3:]
	}
	c.w.mu.Lock()
	ri := -1
	if r := c.w.lastServed(); r != nil {
		ri = r.idx
		r.sigHash[q] = req.Hash
	}
	c.w.emit(vh.Event{"ev": "SigReq", "round": ri, "c": c.name, "q": q, "ms": time.Since(c.w.t0).Milliseconds()})
	c.w.mu.Unlock()
	p := plots[q]
	if p == nil {
		return nil
	}
	sig, err := scheme.SignPrepend(p.localSk, req.Hash[:], p.plotPk) // as skchia's SignHash does
	if err != nil {
		return nil
	}
	go c.w.ls.ReportSignature(ctx, c.id, &protocol.ReportSignature{TaskID: req.TaskID, SpaceID: req.SpaceID, Hash: req.Hash, Signature: sig})
	return nil
}

// ---------------------------------------------------------------- scenario

func intSeq(v interface{}) []int {
	arr, _ := v.([]interface{})
	out := make([]int, 0, len(arr))
	for _, e := range arr {
		f, _ := e.(float64)
		out = append(out, int(f))
	}
	return out
}

func run(sc vh.Scenario, dir string, rec *vh.Rec) {
	w := &world{rec: rec, stopReq: make(chan int, 1), allDone: make(chan struct{}), ls: fractal.NewLocalSuperior()}
	for i, st := range sc.Steps {
		r := &round{idx: i, H: uint64(baseH + st.Int("h")), Prev: st.Str("prev"), NOver: intSeq(st["nover"]), Tip: st.Str("tip"), TipMs: st.Int("tipms"),
			Res: st.Str("res"), Again: st.Int("again"), StopMs: st.Int("stopms"), sigHash: map[string]pocutil.Hash{}}
		for len(r.NOver) < W {
			r.NOver = append(r.NOver, 0)
		}
		its, _ := st["items"].([]interface{})
		for _, p := range its {
			m := p.(map[string]interface{})
			b, _ := m["bound"].(bool)
			off, _ := m["off"].(float64)
			r.Items = append(r.Items, item{Q: m["q"].(string), C: m["c"].(string), Off: int(off), Bound: b})
		}
		w.rounds = append(w.rounds, r)
	}
	for _, n := range []string{"k1", "k2", "k3"} {
		w.ls.Subscribe(context.Background(), &collector{w: w, name: n, id: uuid.NewSHA1(uuid.Nil, []byte(fmt.Sprintf("%s/%d", n, sc.Seed)))})
	}
	ks := chiawallet.NewEmptyKeystore()
	if _, err := ks.SetMinerKey(farmerSk, poolSk); err != nil {
		rec.Dead, rec.Note = true, "keystore: "+err.Error()
		return
	}
	newBlockCh := make(chan *wire.Hash, 16)
	addr, err := massutil.NewAddressWitnessScriptHash(make([]byte, 32), &config.ChainParams)
	if err != nil {
		rec.Dead, rec.Note = true, "payout address: "+err.Error()
		return
	}
	m, err := pocminer.NewPoCMiner("chiapos", true, &chain{w}, syncMgr{}, &keeper{}, newBlockCh, []massutil.Address{addr}, ks, w.ls)
	if err != nil {
		rec.Dead, rec.Note = true, "new miner: "+err.Error()
		return
	}
	go func() {
		for range newBlockCh {
			w.mu.Lock()
			w.nNew++
			w.emit(vh.Event{"ev": "NewBlock"})
			w.mu.Unlock()
		}
	}()
	w.t0 = time.Now()
	rec.Begin(vh.Event{"ev": "Start"})
	if err := m.Start(); err != nil {
		rec.Dead, rec.Note = true, "start: "+err.Error()
		return
	}
	limit := time.After(time.Duration(len(w.rounds)*(W+4)*slotSec+15) * time.Second)
	stopped := false
	select {
	case <-w.allDone:
	case ri := <-w.stopReq:
		w.mu.Lock()
		w.emit(vh.Event{"ev": "Stop", "round": ri, "ms": time.Since(w.rounds[ri].first).Milliseconds(), "abs": time.Since(w.t0).Milliseconds()})
		w.mu.Unlock()
		done := make(chan struct{})
		go func() { m.Stop(); close(done) }()
		select {
		case <-done:
			w.mu.Lock()
			w.emit(vh.Event{"ev": "Stopped", "prompt": true})
			w.mu.Unlock()
		case <-time.After(time.Duration(6*slotSec) * time.Second):
			w.mu.Lock()
			w.emit(vh.Event{"ev": "Stopped", "prompt": false})
			w.mu.Unlock()
		}
		stopped = true
		time.Sleep(time.Duration(slotSec+1) * time.Second)
	case <-limit:
		w.mu.Lock()
		w.emit(vh.Event{"ev": "Timeout"})
		w.mu.Unlock()
	}
	if !stopped {
		time.Sleep(1200 * time.Millisecond)
		done := make(chan struct{})
		go func() { m.Stop(); close(done) }()
		select {
		case <-done:
		case <-time.After(time.Duration(6*slotSec) * time.Second):
			w.mu.Lock()
			w.emit(vh.Event{"ev": "Stopped", "prompt": false})
			w.mu.Unlock()
		}
	}
	for i := 0; i < 1000; i++ {
		w.mu.Lock()
		ok := w.nNew >= w.nAcc
		w.mu.Unlock()
		if ok {
			break
		}
		time.Sleep(time.Millisecond)
	}
	w.mu.Lock()
	served := make([]interface{}, 0)
	for _, r := range w.rounds {
		if !r.first.IsZero() {
			served = append(served, r.idx)
		}
	}
	w.emit(vh.Event{"ev": "End", "served": served})
	w.closed = true
	for _, r := range w.rounds {
		for _, t := range r.timers {
			t.Stop()
		}
	}
	w.mu.Unlock()
}

func main() {
	flag.Parse()
	logging.Init(os.TempDir(), "miner2drv", "fatal", 1, true)
	initKeys()
	vh.Main(run)
}
