// minerdrv runs the real sync PoC miner (poc/engine/pocminer/miner) against a scripted chain and a scripted space
// keeper.  A scenario is a list of rounds (specs/Miner.tla): a chain template (height, parent, timestamp relative to
// now), the proofs the keeper offers (genuine proofs for one challenge, found once by cmd/minercraft and re-verified
// here with the chain library; each offered as fine / with an error / unbound / tampered), for every slot how many of
// the offered proofs exceed the target (the target function is built from the proofs' real qualities), the arrival of
// a competing tip, a stop request, and what ProcessBlock answers.  Everything the miner hands to the chain is
// recorded with what the trace specification needs to judge it.
package main

import (
	"context"
	"crypto/sha256"
	"errors"
	"flag"
	"fmt"
	"math/big"
	"os"
	"sort"
	"sync"
	"time"

	"github.com/massnetorg/mass-core/blockchain"
	"github.com/massnetorg/mass-core/config"
	"github.com/massnetorg/mass-core/logging"
	"github.com/massnetorg/mass-core/massutil"
	"github.com/massnetorg/mass-core/poc"
	"github.com/massnetorg/mass-core/poc/pocutil"
	"github.com/massnetorg/mass-core/pocec"
	"github.com/massnetorg/mass-core/wire"

	"massnet.org/mass/poc/engine"
	"massnet.org/mass/poc/engine/pocminer"
	_ "massnet.org/mass/poc/engine/pocminer/miner"

	"verifharness/vh"
)

const (
	slotSec = poc.PoCSlot
	bl      = 24
	W       = 4 // slot offsets 0..W-1 carry a scripted target; every other slot has an unreachable target
)

// genuine proofs for the challenge below (cmd/minercraft): key index, x, x'
var craftedTab = []struct {
	name  string
	key   int
	x, xp uint64
}{
	{"a", 1, 12088525, 5859550},
	{"b", 3, 469083, 9859642},
	{"c", 5, 5872002, 6817405},
	{"d", 9, 10587399, 16084804},
	{"e", 4, 758869, 7122183},
}

type craftedProof struct {
	name string
	priv *pocec.PrivateKey
	pub  *pocec.PublicKey
	x    []byte
	xp   []byte
}

var (
	challenge = pocutil.Hash(sha256.Sum256([]byte("minerdrv challenge")))
	crafted   = map[string]*craftedProof{}
)

func initCrafted() {
	for _, c := range craftedTab {
		sd := sha256.Sum256([]byte(fmt.Sprintf("minerdrv key %d", c.key)))
		priv, pub := pocec.PrivKeyFromBytes(pocec.S256(), sd[:])
		p := &craftedProof{name: c.name, priv: priv, pub: pub, x: pocutil.PoCValue2Bytes(pocutil.PoCValue(c.x), bl), xp: pocutil.PoCValue2Bytes(pocutil.PoCValue(c.xp), bl)}
		if err := poc.NewDefaultProof(p.x, p.xp, bl).Verify(pocutil.PubKeyHash(pub), challenge, false); err != nil {
			vh.Fatal("embedded proof %s does not verify: %v", c.name, err)
		}
		crafted[c.name] = p
	}
}

type proofSpec struct {
	K  string
	St string // ok | err | unbound | unverif
}

type round struct {
	idx    int
	H      uint64
	Prev   string
	S0     int
	Proofs []proofSpec
	NOver  []int
	Tip    string // none | switched | better | same
	TipMs  int
	Res    string // accept | reject | orphan
	Again  int
	StopMs int

	first    time.Time
	B        int64 // slot at first serve
	waiters  []chan *blockchain.BlockNode
	resulted bool
	reserved int
	signMs   int64
	signAbs  int64
	signOff  int64
	over     bool
	timers   []*time.Timer
}

func hashOf(s string) wire.Hash { return wire.Hash(sha256.Sum256([]byte(s))) }

type world struct {
	mu      sync.Mutex
	rec     *vh.Rec
	rounds  []*round
	idx     int
	step    int
	stopReq chan int
	allDone chan struct{}
	doneFlg bool
	closed  bool
	t0      time.Time
	nAcc    int // blocks the scripted chain accepted
	nNew    int // announcements seen on newBlockCh
}

func (w *world) emit(ev vh.Event) {
	if w.closed {
		return
	}
	ev["step"] = w.step
	w.step++
	w.rec.Emit(ev)
}

func (w *world) cur() *round {
	if w.idx < len(w.rounds) {
		return w.rounds[w.idx]
	}
	return nil
}

func (w *world) advance(r *round) {
	if r.over {
		return
	}
	r.over = true
	for _, t := range r.timers {
		t.Stop()
	}
	if w.cur() == r {
		w.idx++
	}
	if w.idx >= len(w.rounds) && !w.doneFlg {
		w.doneFlg = true
		close(w.allDone)
	}
}

func nowSlot() int64 { return time.Now().Unix() / slotSec }

// qualities of the proofs that carry data, at an absolute slot
func (r *round) qualities(slot int64) (names []string, qs map[string]*big.Int) {
	qs = map[string]*big.Int{}
	names = []string{}
	for _, p := range r.Proofs {
		if p.St == "err" {
			continue
		}
		c := crafted[p.K]
		x := c.x
		if p.St == "unverif" {
			x = tamper(c.x)
		}
		qs[p.K] = poc.NewDefaultProof(x, c.xp, bl).Quality(uint64(slot), r.H)
		names = append(names, p.K)
	}
	sort.Slice(names, func(i, j int) bool { return qs[names[i]].Cmp(qs[names[j]]) > 0 })
	return
}

func tamper(x []byte) []byte {
	y := append([]byte{}, x...)
	y[0] ^= 1
	return y
}

var unreachable = new(big.Int).Lsh(big.NewInt(1), 255)

// target at an absolute slot: exactly NOver[off] of the data-carrying proofs have a quality above it
func (r *round) target(slot int64) *big.Int {
	off := slot - r.B
	if off < 0 || off >= W {
		return unreachable
	}
	n := r.NOver[off]
	names, qs := r.qualities(slot)
	if n <= 0 || len(names) == 0 {
		if len(names) == 0 {
			return unreachable
		}
		return new(big.Int).Set(qs[names[0]]) // equal to the best: nothing exceeds it
	}
	if n >= len(names) {
		return new(big.Int).Sub(qs[names[len(names)-1]], big.NewInt(1))
	}
	return new(big.Int).Set(qs[names[n]]) // equal to the (n+1)-th: exactly n exceed it
}

func (w *world) node(r *round, sibling bool) *blockchain.BlockNode {
	name := r.Prev
	if sibling {
		name += "-sibling"
	}
	h := hashOf(name)
	return &blockchain.BlockNode{Hash: &h, Height: r.H - 1, CapSum: big.NewInt(1000), Timestamp: time.Unix((r.B-1)*slotSec, 0), Quality: big.NewInt(10)}
}

// ---------------------------------------------------------------- scripted chain

type chain struct{ w *world }

func (c *chain) BestBlockNode() *blockchain.BlockNode {
	c.w.mu.Lock()
	defer c.w.mu.Unlock()
	r := c.w.cur()
	if r == nil {
		r = c.w.rounds[len(c.w.rounds)-1]
		return c.w.node(r, true)
	}
	return c.w.node(r, r.Tip == "switched")
}
func (c *chain) BestBlockHash() *wire.Hash { return c.BestBlockNode().Hash }
func (c *chain) BestBlockHeight() uint64   { return c.BestBlockNode().Height }
func (c *chain) ChainID() *wire.Hash       { h := hashOf("chain"); return &h }

func (c *chain) BlockWaiter(height uint64) (<-chan *blockchain.BlockNode, error) {
	c.w.mu.Lock()
	defer c.w.mu.Unlock()
	ch := make(chan *blockchain.BlockNode, 1)
	if r := c.w.cur(); r != nil {
		r.waiters = append(r.waiters, ch)
	}
	return ch, nil
}

func (c *chain) NewBlockTemplate(addrs []massutil.Address, ch chan interface{}) error {
	w := c.w
	w.mu.Lock()
	defer w.mu.Unlock()
	r := w.cur()
	if r != nil && r.resulted {
		// the height was served again after its result (Again): now move on
		if r.reserved >= r.Again {
			w.advance(r)
			r = w.cur()
		} else {
			r.reserved++
		}
	}
	if r == nil {
		return errors.New("scripted chain: no further template")
	}
	if r.first.IsZero() {
		r.first = time.Now()
		r.B = nowSlot()
		order := make([]interface{}, 0, W)
		for off := int64(0); off < W; off++ {
			names, _ := r.qualities(r.B + off)
			order = append(order, names)
		}
		ps := make([]interface{}, 0)
		for _, p := range r.Proofs {
			ps = append(ps, map[string]interface{}{"k": p.K, "st": p.St})
		}
		w.emit(vh.Event{"ev": "Tpl", "round": r.idx, "h": r.H, "prev": r.Prev, "s0": r.S0, "proofs": ps, "order": order, "nover": r.NOver,
			"tip": r.Tip, "tipms": r.TipMs, "res": r.Res, "again": r.Again, "stopms": r.StopMs})
		rr := r
		if r.Tip == "better" || r.Tip == "same" {
			r.timers = append(r.timers, time.AfterFunc(time.Duration(r.TipMs)*time.Millisecond, func() { w.tipArrives(rr) }))
		}
		if r.StopMs >= 0 {
			r.timers = append(r.timers, time.AfterFunc(time.Duration(r.StopMs)*time.Millisecond, func() {
				select {
				case w.stopReq <- rr.idx:
				default:
				}
			}))
		}
		// the round is over two slots after its last open slot has passed (nothing can be mined for it any more)
		lastOpen := 0
		for off, n := range r.NOver {
			if n > 0 {
				lastOpen = off
			}
		}
		r.timers = append(r.timers, time.AfterFunc(time.Duration((lastOpen+2)*slotSec+1)*time.Second, func() {
			w.mu.Lock()
			defer w.mu.Unlock()
			if !rr.over {
				// somebody else's block ends the round: a miner still searching it is told through the stale monitor
				w.emit(vh.Event{"ev": "Expire", "round": rr.idx, "ms": time.Since(rr.first).Milliseconds()})
				n := w.node(rr, true)
				n.CapSum = big.NewInt(3000)
				for _, ch := range rr.waiters {
					select {
					case ch <- n:
					default:
					}
				}
				rr.waiters = nil
				w.advance(rr)
			}
		}))
	}
	rr := r
	prev := hashOf(r.Prev)
	pt := &blockchain.PoCTemplate{
		Height:    r.H,
		Timestamp: time.Unix((r.B+int64(r.S0))*slotSec, 0),
		Previous:  prev,
		Challenge: wire.Hash(challenge),
		GetTarget: func(t time.Time) *big.Int { return rr.target(t.Unix() / slotSec) },
		PassBinding: func(p blockchain.Proof) bool {
			for _, ps := range rr.Proofs {
				if string(crafted[ps.K].pub.SerializeCompressed()) == string(p.PlotPublicKey()) {
					return ps.St != "unbound"
				}
			}
			return false
		},
	}
	coinbase := wire.NewMsgTx()
	coinbase.AddTxIn(wire.NewTxIn(wire.NewOutPoint(&wire.Hash{}, wire.MaxPrevOutIndex), nil))
	coinbase.AddTxOut(wire.NewTxOut(1000+int64(r.idx), []byte{0x51}))
	pt.GetCoinbase = func(blockchain.Proof, massutil.Amount) (*massutil.Tx, error) { return massutil.NewTx(coinbase), nil }
	hdr := wire.NewEmptyBlockHeader()
	hdr.ChainID = hashOf("chain")
	hdr.Version = 1
	hdr.Height = r.H
	hdr.Previous = prev
	hdr.Timestamp = pt.Timestamp
	blk := wire.NewMsgBlock(hdr)
	blk.AddTransaction(coinbase)
	cbh := coinbase.TxHash()
	bt := &blockchain.BlockTemplate{Block: blk, TotalFee: massutil.ZeroAmount(), Height: r.H, ValidPayAddress: true,
		MerkleCache: []*wire.Hash{&cbh}, WitnessMerkleCache: []*wire.Hash{&cbh}}
	ch <- pt
	ch <- bt
	return nil
}

func (w *world) tipArrives(r *round) {
	w.mu.Lock()
	defer w.mu.Unlock()
	if r.over {
		return
	}
	n := w.node(r, true)
	if r.Tip == "better" {
		n.CapSum = big.NewInt(2000)
	} else {
		n.CapSum = big.NewInt(500)
	}
	w.emit(vh.Event{"ev": "Tip", "round": r.idx, "kind": r.Tip, "ms": time.Since(r.first).Milliseconds()})
	ws := r.waiters
	r.waiters = nil
	for _, ch := range ws {
		select {
		case ch <- n:
		default:
		}
	}
	if r.Tip == "better" {
		w.advance(r)
	}
}

func (c *chain) ProcessBlock(b *massutil.Block) (bool, error) {
	w := c.w
	now := time.Now()
	w.mu.Lock()
	defer w.mu.Unlock()
	h := b.MsgBlock().Header
	ev := vh.Event{"ev": "Submit", "h": h.Height, "round": -1, "k": "unknown", "prev": "unknown"}
	var r *round
	for _, x := range w.rounds {
		if hashOf(x.Prev) == h.Previous {
			r = x
		}
	}
	if r == nil || r.first.IsZero() {
		ev["res"] = "reject"
		w.emit(ev)
		return false, errors.New("unknown parent")
	}
	ev["round"], ev["prev"] = r.idx, r.Prev
	ts := h.Timestamp
	ev["off"] = ts.Unix()/slotSec - r.B
	ev["aligned"] = ts.Unix()%slotSec == 0 && ts.Nanosecond() == 0
	ev["early"] = !now.After(ts)
	ev["targetok"] = h.Target != nil && h.Target.Cmp(r.target(ts.Unix()/slotSec)) == 0
	ev["challok"] = h.Challenge == wire.Hash(challenge)
	ev["hok"] = h.Height == r.H
	dp, _ := h.Proof.(*poc.DefaultProof)
	for _, ps := range r.Proofs {
		c := crafted[ps.K]
		if h.PubKey != nil && string(h.PubKey.SerializeCompressed()) == string(c.pub.SerializeCompressed()) {
			ev["k"] = ps.K
			ev["proofok"] = dp != nil && dp.BL == bl && string(dp.X) == string(c.x) && string(dp.XPrime) == string(c.xp)
			// the chain's own check (signature over HashH(PoC hash) under the header's key, which is this proof's key)
			sigok, _ := h.VerifySig()
			ev["sigok"] = sigok
		}
	}
	ev["signms"], ev["signoff"], ev["signabs"] = r.signMs, r.signOff, r.signAbs
	ev["ms"] = now.Sub(r.first).Milliseconds()
	ev["res"] = r.Res
	w.emit(ev)
	if !r.resulted {
		r.resulted = true
		if r.Again == 0 {
			w.advance(r)
		}
	}
	switch r.Res {
	case "accept":
		w.nAcc++
		return false, nil
	case "orphan":
		return true, nil
	}
	return false, errors.New("scripted rejection")
}

type syncMgr struct{}

func (syncMgr) IsCaughtUp() bool { return true }
func (syncMgr) PeerCount() int   { return 3 }

// ---------------------------------------------------------------- scripted space keeper

type keeper struct {
	w       *world
	started bool
}

func (k *keeper) Start() error  { k.started = true; return nil }
func (k *keeper) Stop() error   { k.started = false; return nil }
func (k *keeper) Started() bool { return k.started }
func (k *keeper) Type() string  { return "scripted" }
func (k *keeper) WorkSpaceIDs(engine.WorkSpaceStateFlags) ([]string, error) {
	return nil, nil
}
func (k *keeper) WorkSpaceInfos(engine.WorkSpaceStateFlags) ([]engine.WorkSpaceInfo, error) {
	return nil, nil
}
func (k *keeper) GetProof(context.Context, string, pocutil.Hash, bool) (*engine.WorkSpaceProof, error) {
	return nil, errors.New("unused")
}
func (k *keeper) GetProofReader(context.Context, string, pocutil.Hash, bool) (engine.ProofReader, error) {
	return nil, errors.New("unused")
}
func (k *keeper) GetProofsReader(context.Context, engine.WorkSpaceStateFlags, pocutil.Hash, bool) (engine.ProofReader, error) {
	return nil, errors.New("unused")
}
func (k *keeper) ActOnWorkSpace(string, engine.ActionType) error { return nil }
func (k *keeper) ActOnWorkSpaces(engine.WorkSpaceStateFlags, engine.ActionType) (map[string]error, error) {
	return nil, nil
}

func (k *keeper) GetProofs(_ context.Context, _ engine.WorkSpaceStateFlags, ch pocutil.Hash, filter bool) ([]*engine.WorkSpaceProof, error) {
	k.w.mu.Lock()
	defer k.w.mu.Unlock()
	r := k.w.cur()
	if r == nil || ch != challenge || filter {
		return nil, nil
	}
	var out []*engine.WorkSpaceProof
	for i, ps := range r.Proofs {
		c := crafted[ps.K]
		p := &engine.WorkSpaceProof{SpaceID: "sp-" + ps.K, PublicKey: c.pub, Ordinal: int64(i)}
		switch ps.St {
		case "err":
			p.Error = errors.New("scripted keeper: space not readable")
		case "unverif":
			p.Proof = poc.NewDefaultProof(tamper(c.x), c.xp, bl)
		default:
			p.Proof = poc.NewDefaultProof(append([]byte{}, c.x...), append([]byte{}, c.xp...), bl)
		}
		out = append(out, p)
	}
	return out, nil
}

func (k *keeper) SignHash(sid string, hash [32]byte) (*pocec.Signature, error) {
	k.w.mu.Lock()
	defer k.w.mu.Unlock()
	name := sid[3:]
	c := crafted[name]
	if c == nil {
		return nil, errors.New("unknown space")
	}
	ev := vh.Event{"ev": "Sign", "k": name, "round": -1}
	// the miner signs for the template it was served last (that round may already be over for the chain)
	var r *round
	for _, x := range k.w.rounds {
		if !x.first.IsZero() {
			r = x
		}
	}
	if r != nil {
		r.signMs, r.signOff = time.Since(r.first).Milliseconds(), nowSlot()-r.B
		r.signAbs = time.Since(k.w.t0).Milliseconds()
		ev["round"], ev["ms"], ev["off"] = r.idx, r.signMs, r.signOff
	}
	k.w.emit(ev)
	mh := wire.HashH(hash[:]) // as the real wallet does (KeystoreManagerForPoC.SignMessage)
	return c.priv.Sign(mh[:])
}

// ---------------------------------------------------------------- scenario

func intSeq(v interface{}) []int {
	arr, _ := v.([]interface{})
	out := make([]int, 0, len(arr))
	for _, e := range arr {
		f, _ := e.(float64)
		out = append(out, int(f))
	}
	return out
}

func run(sc vh.Scenario, dir string, rec *vh.Rec) {
	w := &world{rec: rec, stopReq: make(chan int, 1), allDone: make(chan struct{})}
	for i, st := range sc.Steps {
		r := &round{idx: i, H: uint64(st.Int("h")), Prev: st.Str("prev"), S0: st.Int("s0"), NOver: intSeq(st["nover"]), Tip: st.Str("tip"), TipMs: st.Int("tipms"),
			Res: st.Str("res"), Again: st.Int("again"), StopMs: st.Int("stopms")}
		for len(r.NOver) < W {
			r.NOver = append(r.NOver, 0)
		}
		ps, _ := st["proofs"].([]interface{})
		for _, p := range ps {
			m := p.(map[string]interface{})
			r.Proofs = append(r.Proofs, proofSpec{K: m["k"].(string), St: m["st"].(string)})
		}
		w.rounds = append(w.rounds, r)
	}
	newBlockCh := make(chan *wire.Hash, 16)
	addr, err := massutil.NewAddressWitnessScriptHash(make([]byte, 32), &config.ChainParams)
	if err != nil {
		rec.Dead, rec.Note = true, "payout address: "+err.Error()
		return
	}
	m, err := pocminer.NewPoCMiner("sync", true, &chain{w}, syncMgr{}, &keeper{w: w}, newBlockCh, []massutil.Address{addr})
	if err != nil {
		rec.Dead, rec.Note = true, "new miner: "+err.Error()
		return
	}
	go func() {
		for h := range newBlockCh {
			_ = h
			w.mu.Lock()
			w.nNew++
			w.emit(vh.Event{"ev": "NewBlock"})
			w.mu.Unlock()
		}
	}()
	w.t0 = time.Now()
	rec.Begin(vh.Event{"ev": "Start"})
	if err := m.Start(); err != nil {
		rec.Dead, rec.Note = true, "start: "+err.Error()
		return
	}
	limit := time.After(time.Duration(len(w.rounds)*(W+3)*slotSec+10) * time.Second)
	stopped := false
	select {
	case <-w.allDone:
	case ri := <-w.stopReq:
		w.mu.Lock()
		w.emit(vh.Event{"ev": "Stop", "round": ri, "ms": time.Since(w.rounds[ri].first).Milliseconds(), "abs": time.Since(w.t0).Milliseconds()})
		w.mu.Unlock()
		done := make(chan struct{})
		go func() { m.Stop(); close(done) }()
		select {
		case <-done:
			w.mu.Lock()
			w.emit(vh.Event{"ev": "Stopped", "prompt": true})
			w.mu.Unlock()
		case <-time.After(time.Duration(6*slotSec) * time.Second):
			w.mu.Lock()
			w.emit(vh.Event{"ev": "Stopped", "prompt": false})
			w.mu.Unlock()
		}
		stopped = true
		// anything the miner does after Stop returned is recorded during this grace period
		time.Sleep(time.Duration(slotSec+1) * time.Second)
	case <-limit:
		w.mu.Lock()
		w.emit(vh.Event{"ev": "Timeout"})
		w.mu.Unlock()
	}
	if !stopped {
		time.Sleep(1200 * time.Millisecond) // a second submission for the last height would come now
		done := make(chan struct{})
		go func() { m.Stop(); close(done) }()
		select {
		case <-done:
		case <-time.After(time.Duration(6*slotSec) * time.Second):
			w.mu.Lock()
			w.emit(vh.Event{"ev": "Stopped", "prompt": false})
			w.mu.Unlock()
		}
	}
	// the announcement of the last accepted block is read by another goroutine: let it be recorded before the end
	for i := 0; i < 1000; i++ {
		w.mu.Lock()
		ok := w.nNew >= w.nAcc
		w.mu.Unlock()
		if ok {
			break
		}
		time.Sleep(time.Millisecond)
	}
	w.mu.Lock()
	served := make([]interface{}, 0)
	for _, r := range w.rounds {
		if !r.first.IsZero() {
			served = append(served, r.idx)
		}
	}
	w.emit(vh.Event{"ev": "End", "served": served})
	w.closed = true
	for _, r := range w.rounds {
		for _, t := range r.timers {
			t.Stop()
		}
	}
	w.mu.Unlock()
}

func main() {
	flag.Parse()
	logging.Init(os.TempDir(), "minerdrv", "fatal", 1, true)
	initCrafted()
	vh.Main(run)
}
