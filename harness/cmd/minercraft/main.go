// minercraft finds, for fixed keys and one fixed challenge, genuine proofs (x, x') of bit length 24 by building
// the whole table once per key (about 2 x 2^24 hash evaluations each).  Its output is embedded in
// cmd/minerdrv/proofs.go; the driver re-verifies every proof with the chain library at start-up.
package main

import (
	"crypto/sha256"
	"fmt"

	"github.com/massnetorg/mass-core/poc/pocutil"
	"github.com/massnetorg/mass-core/pocec"
)

func main() {
	const bl = 24
	chall := pocutil.Hash(sha256.Sum256([]byte("minerdrv challenge")))
	want := pocutil.CutHash(chall, bl)
	fmt.Printf("// challenge %x cut %d\n", chall[:], want)
	found := 0
	for i := 0; found < 5 && i < 40; i++ {
		sd := sha256.Sum256([]byte(fmt.Sprintf("minerdrv key %d", i)))
		priv, pub := pocec.PrivKeyFromBytes(pocec.S256(), sd[:])
		_ = priv
		pkh := pocutil.PubKeyHash(pub)
		tab := make([]uint32, 1<<bl) // y -> x+1
		for x := uint32(0); x < 1<<bl; x++ {
			y := pocutil.P(pocutil.PoCValue(x), bl, pkh)
			tab[uint32(y)] = x + 1
		}
		n := 0
		for x := uint32(0); x < 1<<bl; x++ {
			y := pocutil.P(pocutil.PoCValue(x), bl, pkh)
			o := tab[uint32(pocutil.FlipValue(y, bl))]
			if o == 0 {
				continue
			}
			xp := o - 1
			if pocutil.F(pocutil.PoCValue(x), pocutil.PoCValue(xp), bl, pkh) == want {
				fmt.Printf("{%d, %d, %d},\n", i, x, xp)
				n++
			}
		}
		if n > 0 {
			found++
		}
	}
}
