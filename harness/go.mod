module verifharness

go 1.13

require massnet.org/mass v0.0.0

replace massnet.org/mass => /repo
