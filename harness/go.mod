module verifharness

go 1.13

require (
	github.com/golang/protobuf v1.4.2
	github.com/google/uuid v1.3.0
	github.com/massnetorg/mass-core v0.0.0-20210816132538-be1c10e6c62a
	github.com/shirou/gopsutil v3.21.5+incompatible
	github.com/syndtr/goleveldb v1.0.1-0.20210305035536-64b5b1c73954
	golang.org/x/crypto v0.0.0-20210322153248-0c34fe9e7dc2
	google.golang.org/grpc v1.26.0
	massnet.org/mass v0.0.0
)

replace massnet.org/mass => /repo
