// Package vh holds what every conformance driver shares: reading TLC-generated scenarios,
// recording traces, seeded concretisation, and a supervisor that runs scenarios in child
// processes so that a crash of the code under test (panic in a goroutine, runtime fatal error,
// os.Exit from a FATAL log call) is attributed to the step that caused it instead of killing the run.
package vh

import (
	"bufio"
	"encoding/json"
	"flag"
	"fmt"
	"io/ioutil"
	"math/rand"
	"os"
	"os/exec"
	"path/filepath"
	"sort"
	"strings"
	"sync"
	"syscall"
	"time"
)

// Step is one abstract action of a TLC-generated behaviour: {"a"|"t": name, args...}.
type Step map[string]interface{}

func (s Step) A() string {
	if v, ok := s["a"].(string); ok {
		return v
	}
	v, _ := s["t"].(string)
	return v
}
func (s Step) Str(k string) string {
	v, _ := s[k].(string)
	return v
}
func (s Step) Int(k string) int {
	switch v := s[k].(type) {
	case float64:
		return int(v)
	case int:
		return v
	}
	return 0
}
func (s Step) Bool(k string) bool { v, _ := s[k].(bool); return v }

// StrSeq reads a JSON array of strings.
func StrSeq(v interface{}) []string {
	arr, _ := v.([]interface{})
	out := make([]string, 0, len(arr))
	for _, e := range arr {
		s, _ := e.(string)
		out = append(out, s)
	}
	return out
}

// SeqSeq reads a JSON array of arrays of strings.
func SeqSeq(v interface{}) [][]string {
	arr, _ := v.([]interface{})
	out := make([][]string, 0, len(arr))
	for _, e := range arr {
		out = append(out, StrSeq(e))
	}
	return out
}

// Scenario is one behaviour to execute.
type Scenario struct {
	Sc    int                    `json:"sc"`
	Seed  int64                  `json:"seed"`
	Steps []Step                 `json:"steps"`
	Opt   map[string]interface{} `json:"opt,omitempty"`
}

type Event = map[string]interface{}

// Trace is what a driver recorded for one scenario.
type Trace struct {
	Sc   int               `json:"sc"`
	Seed int64             `json:"seed"`
	Ev   []Event           `json:"ev"`
	Note string            `json:"note,omitempty"`
	Dead bool              `json:"dead,omitempty"` // the driver could not run the scenario (machinery, not verdict)
	Died bool              `json:"died,omitempty"` // the process died inside a step of this scenario (recorded as res="died")
	Conc map[string]string `json:"conc,omitempty"` // concretisation used
}

// Rec records the events of one scenario; Begin marks the start of a step so that a process death
// inside it can be attributed.
type Rec struct {
	sc   int
	w    *bufio.Writer
	f    *os.File
	Conc map[string]string
	Note string
	Dead bool
}

type line struct {
	Sc    int               `json:"sc"`
	Begin *Event            `json:"begin,omitempty"`
	Ev    *Event            `json:"ev,omitempty"`
	Done  bool              `json:"done,omitempty"`
	Note  string            `json:"note,omitempty"`
	Dead  bool              `json:"dead,omitempty"`
	Conc  map[string]string `json:"conc,omitempty"`
}

func (r *Rec) write(l line) {
	b, _ := json.Marshal(l)
	r.w.Write(b)
	r.w.WriteByte('\n')
	r.w.Flush()
}

// Begin announces the step about to run (its abstract form); if the process dies before Emit, the
// supervisor turns it into an event with res = "died".
func (r *Rec) Begin(ev Event) { r.write(line{Sc: r.sc, Begin: &ev}) }
func (r *Rec) Emit(ev Event)  { r.write(line{Sc: r.sc, Ev: &ev}) }

// DoneAndExit closes the scenario's record and ends the child process (used when the code under test left
// goroutines behind that cannot be wound down); the supervisor starts a fresh child for the remaining scenarios.
func (r *Rec) DoneAndExit(code int) {
	r.write(line{Sc: r.sc, Done: true, Note: r.Note, Dead: r.Dead, Conc: r.Conc})
	os.Exit(code)
}

var (
	ScenFile = flag.String("scenarios", "", "JSON file with scenarios")
	OutFile  = flag.String("out", "", "ndjson trace output")
	Workers  = flag.Int("workers", 8, "parallel child processes")
	WorkDir  = flag.String("workdir", "", "scratch directory (default: temp)")
	Stall    = flag.Int("stall", 40, "seconds without a recorded event after which a child process is killed")
	child    = flag.String("child", "", "internal: run as child, comma separated part file")
	childLo  = flag.Int("lo", 0, "internal")
	childHi  = flag.Int("hi", 0, "internal")
)

func LoadScenarios() []Scenario {
	b, err := ioutil.ReadFile(*ScenFile)
	if err != nil {
		Fatal("read scenarios: %v", err)
	}
	var sc []Scenario
	if err := json.Unmarshal(b, &sc); err != nil {
		Fatal("parse scenarios: %v", err)
	}
	return sc
}

func Fatal(f string, a ...interface{}) {
	fmt.Fprintf(os.Stderr, "driver: "+f+"\n", a...)
	os.Exit(3)
}

// RunFunc executes one scenario in directory dir and records through rec.
type RunFunc func(sc Scenario, dir string, rec *Rec)

// Main is the entry point of a driver: supervisor by default, child when -child is given.
func Main(run RunFunc) {
	if !flag.Parsed() {
		flag.Parse()
	}
	scs := LoadScenarios()
	if *child != "" {
		runChild(scs, run)
		return
	}
	supervise(scs)
}

func runChild(scs []Scenario, run RunFunc) {
	f, err := os.OpenFile(*child, os.O_CREATE|os.O_WRONLY|os.O_APPEND, 0o644)
	if err != nil {
		Fatal("open part: %v", err)
	}
	w := bufio.NewWriter(f)
	base := *WorkDir
	for i := *childLo; i < *childHi && i < len(scs); i++ {
		dir := filepath.Join(base, fmt.Sprintf("sc%d", scs[i].Sc))
		os.MkdirAll(dir, 0o755)
		rec := &Rec{sc: scs[i].Sc, w: w, f: f}
		run(scs[i], dir, rec)
		rec.write(line{Sc: scs[i].Sc, Done: true, Note: rec.Note, Dead: rec.Dead, Conc: rec.Conc})
		os.RemoveAll(dir)
	}
	f.Close()
}

// supervise splits the scenarios over child processes; a child that dies is restarted after the
// scenario it died in.
func supervise(scs []Scenario) {
	base := *WorkDir
	if base == "" {
		d, err := ioutil.TempDir("", "vhdrv-")
		if err != nil {
			Fatal("tempdir: %v", err)
		}
		base = d
		defer os.RemoveAll(d)
	}
	n := *Workers
	if n > len(scs) {
		n = len(scs)
	}
	if n < 1 {
		n = 1
	}
	traces := make(map[int]*Trace)
	var mu sync.Mutex
	var wg sync.WaitGroup
	self, _ := os.Executable()
	// interleaved assignment would break lo..hi slicing; use contiguous chunks
	chunk := (len(scs) + n - 1) / n
	for k := 0; k < n; k++ {
		lo, hi := k*chunk, (k+1)*chunk
		if hi > len(scs) {
			hi = len(scs)
		}
		if lo >= hi {
			continue
		}
		wg.Add(1)
		go func(k, lo, hi int) {
			defer wg.Done()
			part := filepath.Join(base, fmt.Sprintf("part%d.ndjson", k))
			wd := filepath.Join(base, fmt.Sprintf("w%d", k))
			os.MkdirAll(wd, 0o755)
			logPath := filepath.Join(base, fmt.Sprintf("child%d.log", k))
			logf, _ := os.Create(logPath)
			defer logf.Close()
			cur := lo
			restarts := 0
			for cur < hi {
				os.Remove(part)
				args := []string{"-scenarios", *ScenFile, "-child", part, "-lo", fmt.Sprint(cur), "-hi", fmt.Sprint(hi), "-workdir", wd}
				args = append(args, passThrough()...)
				cmd := exec.Command(self, args...)
				cmd.Stdout, cmd.Stderr = logf, logf
				cmd.Env = append(os.Environ(), "VH_CHILD_LOG="+logPath)
				cmd.SysProcAttr = &syscall.SysProcAttr{Setpgid: true}
				err := cmd.Start()
				stalled := false
				if err == nil {
					// watchdog: a child that records nothing for *Stall seconds is wedged (driver or code under test):
					// dump its goroutines into its log and kill it
					waitCh := make(chan error, 1)
					go func() { waitCh <- cmd.Wait() }()
					lastSize, lastChange := int64(-1), time.Now()
				watch:
					for {
						select {
						case err = <-waitCh:
							break watch
						case <-time.After(500 * time.Millisecond):
							var sz int64
							if fi, e := os.Stat(part); e == nil {
								sz = fi.Size()
							}
							if sz != lastSize {
								lastSize, lastChange = sz, time.Now()
							} else if time.Since(lastChange) > time.Duration(*Stall)*time.Second {
								stalled = true
								cmd.Process.Signal(syscall.SIGQUIT)
								time.Sleep(300 * time.Millisecond)
								cmd.Process.Kill()
								err = <-waitCh
								break watch
							}
						}
					}
				}
				got := readPart(part, scs)
				if stalled && len(got) > 0 {
					last := got[len(got)-1]
					if last.Died {
						// not an observation of the code under test: the scenario could not be completed
						last.Died, last.Dead = false, true
						last.Note = fmt.Sprintf("child recorded nothing for %d s and was killed (goroutine dump in %s)", *Stall, logPath)
						if b, e := ioutil.ReadFile(logPath); e == nil {
							ioutil.WriteFile(*OutFile+fmt.Sprintf(".stall%d.log", k), b, 0o644)
							if len(b) > 6000 {
								b = b[len(b)-6000:]
							}
							last.Note += "\n" + string(b)
						}
					}
				}
				if !stalled && err != nil && len(got) > 0 && got[len(got)-1].Died {
					// keep what the dying process printed (a panic, a runtime fatal error, a signal) with the scenario
					if b, e := ioutil.ReadFile(logPath); e == nil {
						if len(b) > 3000 {
							b = b[len(b)-3000:]
						}
						got[len(got)-1].Note += fmt.Sprintf("child exited: %v\n%s", err, string(b))
					}
				}
				mu.Lock()
				done := 0
				for _, t := range got {
					traces[t.Sc] = t
					done++
				}
				mu.Unlock()
				if err == nil && cur+done >= hi {
					break
				}
				if err == nil && done > 0 {
					// the child left deliberately after a scenario (Rec.DoneAndExit): continue with a fresh one
					cur += done
					continue
				}
				// the child died: `got` ends with the scenario it died in (marked Died) - resume after it
				cur += done
				restarts++
				if done == 0 || restarts > hi-lo+2 {
					mu.Lock()
					for i := cur; i < hi; i++ {
						traces[scs[i].Sc] = &Trace{Sc: scs[i].Sc, Seed: scs[i].Seed, Dead: true, Note: fmt.Sprintf("child process failed before recording anything: %v", err)}
					}
					mu.Unlock()
					break
				}
			}
			os.RemoveAll(wd)
		}(k, lo, hi)
	}
	wg.Wait()
	// data-race reports of a -race build end up in the children's logs: collect them next to the trace file
	var races []byte
	for k := 0; k < n; k++ {
		if b, e := ioutil.ReadFile(filepath.Join(base, fmt.Sprintf("child%d.log", k))); e == nil {
			for _, blk := range strings.Split(string(b), "==================") {
				if strings.Contains(blk, "WARNING: DATA RACE") {
					races = append(races, []byte(blk+"\n==================\n")...)
				}
			}
			if i := strings.Index(string(b), "fatal error:"); i >= 0 {
				end := i + 3000
				if end > len(b) {
					end = len(b)
				}
				races = append(races, []byte("FATAL: "+string(b[i:end])+"\n==================\n")...)
			}
		}
	}
	if len(races) > 0 {
		ioutil.WriteFile(*OutFile+".races", races, 0o644)
	}
	f, err := os.Create(*OutFile)
	if err != nil {
		Fatal("create out: %v", err)
	}
	w := bufio.NewWriter(f)
	enc := json.NewEncoder(w)
	keys := make([]int, 0, len(traces))
	for k := range traces {
		keys = append(keys, k)
	}
	sort.Ints(keys)
	bySc := map[int]Scenario{}
	for _, s := range scs {
		bySc[s.Sc] = s
	}
	for _, s := range scs {
		t, ok := traces[s.Sc]
		if !ok {
			t = &Trace{Sc: s.Sc, Seed: s.Seed, Dead: true, Note: "scenario not run"}
		}
		t.Seed = s.Seed
		if t.Ev == nil {
			t.Ev = []Event{}
		}
		if err := enc.Encode(t); err != nil {
			Fatal("encode: %v", err)
		}
	}
	w.Flush()
	f.Close()
}

// extra flags a driver defines are passed to children unchanged
func passThrough() []string {
	var out []string
	skip := map[string]bool{"scenarios": true, "out": true, "workers": true, "workdir": true, "child": true, "lo": true, "hi": true, "stall": true}
	flag.Visit(func(f *flag.Flag) {
		if !skip[f.Name] {
			out = append(out, "-"+f.Name+"="+f.Value.String())
		}
	})
	return out
}

func readPart(part string, scs []Scenario) []*Trace {
	f, err := os.Open(part)
	if err != nil {
		return nil
	}
	defer f.Close()
	var out []*Trace
	var cur *Trace
	var pending *Event
	sc := bufio.NewScanner(f)
	sc.Buffer(make([]byte, 1<<20), 1<<28)
	for sc.Scan() {
		var l line
		if json.Unmarshal(sc.Bytes(), &l) != nil {
			continue
		}
		if cur == nil || cur.Sc != l.Sc {
			cur = &Trace{Sc: l.Sc, Ev: []Event{}}
			out = append(out, cur)
			pending = nil
		}
		switch {
		case l.Begin != nil:
			pending = l.Begin
		case l.Ev != nil:
			cur.Ev = append(cur.Ev, *l.Ev)
			pending = nil
		case l.Done:
			cur.Note, cur.Dead, cur.Conc = l.Note, l.Dead, l.Conc
			cur = nil
			pending = nil
			continue
		}
	}
	if cur != nil { // the process died inside this scenario
		cur.Died = true
		ev := Event{"res": "died"}
		if pending != nil {
			for k, v := range *pending {
				ev[k] = v
			}
			ev["res"] = "died"
		} else {
			ev["a"] = "?"
		}
		cur.Ev = append(cur.Ev, ev)
	}
	return out
}

func Rng(seed int64) *rand.Rand { return rand.New(rand.NewSource(seed)) }

// CopyDir copies a directory tree (used for "as if restarted" images).
func CopyDir(src, dst string) error {
	return filepath.Walk(src, func(p string, info os.FileInfo, err error) error {
		if err != nil {
			return err
		}
		rel, _ := filepath.Rel(src, p)
		t := filepath.Join(dst, rel)
		if info.IsDir() {
			return os.MkdirAll(t, 0o755)
		}
		b, err := ioutil.ReadFile(p)
		if err != nil {
			return err
		}
		return ioutil.WriteFile(t, b, 0o644)
	})
}
