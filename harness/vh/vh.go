// Package vh holds what every conformance driver shares: reading TLC-generated scenarios,
// writing recorded traces, seeded concretisation, a worker pool.
package vh

import (
	"bufio"
	"encoding/json"
	"flag"
	"fmt"
	"io/ioutil"
	"math/rand"
	"os"
	"path/filepath"
	"sync"
)

// Step is one abstract action of a TLC-generated behaviour: {"a": name, args...}.
type Step map[string]interface{}

func (s Step) A() string { v, _ := s["a"].(string); return v }
func (s Step) Str(k string) string {
	v, _ := s[k].(string)
	return v
}
func (s Step) Int(k string) int {
	switch v := s[k].(type) {
	case float64:
		return int(v)
	case int:
		return v
	}
	return 0
}
func (s Step) Bool(k string) bool { v, _ := s[k].(bool); return v }

// StrSeq reads a JSON array of strings.
func StrSeq(v interface{}) []string {
	arr, _ := v.([]interface{})
	out := make([]string, 0, len(arr))
	for _, e := range arr {
		s, _ := e.(string)
		out = append(out, s)
	}
	return out
}

// SeqSeq reads a JSON array of arrays of strings.
func SeqSeq(v interface{}) [][]string {
	arr, _ := v.([]interface{})
	out := make([][]string, 0, len(arr))
	for _, e := range arr {
		out = append(out, StrSeq(e))
	}
	return out
}

// Scenario is one behaviour to execute.
type Scenario struct {
	Sc    int    `json:"sc"`
	Seed  int64  `json:"seed"`
	Steps []Step `json:"steps"`
}

// Trace is what a driver recorded for one scenario.
type Trace struct {
	Sc   int                      `json:"sc"`
	Seed int64                    `json:"seed"`
	Ev   []map[string]interface{} `json:"ev"`
	Note string                   `json:"note,omitempty"`
	Dead bool                     `json:"dead,omitempty"` // the driver could not complete the scenario (machinery, not verdict)
	Conc map[string]string        `json:"conc,omitempty"` // concretisation used
}

var (
	ScenFile = flag.String("scenarios", "", "JSON file with scenarios")
	OutFile  = flag.String("out", "", "ndjson trace output")
	Workers  = flag.Int("workers", 8, "parallel scenarios")
	WorkDir  = flag.String("workdir", "", "scratch directory (default: temp)")
)

func LoadScenarios() []Scenario {
	b, err := ioutil.ReadFile(*ScenFile)
	if err != nil {
		Fatal("read scenarios: %v", err)
	}
	var sc []Scenario
	if err := json.Unmarshal(b, &sc); err != nil {
		Fatal("parse scenarios: %v", err)
	}
	return sc
}

func Fatal(f string, a ...interface{}) {
	fmt.Fprintf(os.Stderr, "driver: "+f+"\n", a...)
	os.Exit(3)
}

// RunAll executes every scenario with `run` on a pool and writes the traces in scenario order.
func RunAll(scs []Scenario, run func(sc Scenario, dir string) Trace) {
	base := *WorkDir
	if base == "" {
		d, err := ioutil.TempDir("", "vhdrv-")
		if err != nil {
			Fatal("tempdir: %v", err)
		}
		base = d
		defer os.RemoveAll(d)
	}
	res := make([]Trace, len(scs))
	var wg sync.WaitGroup
	ch := make(chan int)
	for w := 0; w < *Workers; w++ {
		wg.Add(1)
		go func() {
			defer wg.Done()
			for i := range ch {
				dir := filepath.Join(base, fmt.Sprintf("sc%d", scs[i].Sc))
				os.MkdirAll(dir, 0o755)
				res[i] = run(scs[i], dir)
				res[i].Sc, res[i].Seed = scs[i].Sc, scs[i].Seed
				os.RemoveAll(dir)
			}
		}()
	}
	for i := range scs {
		ch <- i
	}
	close(ch)
	wg.Wait()
	f, err := os.Create(*OutFile)
	if err != nil {
		Fatal("create out: %v", err)
	}
	w := bufio.NewWriter(f)
	enc := json.NewEncoder(w)
	for i := range res {
		if err := enc.Encode(&res[i]); err != nil {
			Fatal("encode: %v", err)
		}
	}
	w.Flush()
	f.Close()
}

func Rng(seed int64) *rand.Rand { return rand.New(rand.NewSource(seed)) }

// CopyDir copies a flat or nested directory (used for "as if restarted" images).
func CopyDir(src, dst string) error {
	return filepath.Walk(src, func(p string, info os.FileInfo, err error) error {
		if err != nil {
			return err
		}
		rel, _ := filepath.Rel(src, p)
		t := filepath.Join(dst, rel)
		if info.IsDir() {
			return os.MkdirAll(t, 0o755)
		}
		b, err := ioutil.ReadFile(p)
		if err != nil {
			return err
		}
		return ioutil.WriteFile(t, b, 0o644)
	})
}
