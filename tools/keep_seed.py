#!/usr/bin/env python3
"""keep_seed.py <id> <m> <needs text>: copy a confirmed seeded change from /tmp/mut/<id>/out/<m> to /verif/seeded/<id>-<m>/ with meta.json"""
import sys, os, shutil, json, glob, re
id, m, needs = sys.argv[1], sys.argv[2], sys.argv[3]
src = "/tmp/mut/%s/out/%s" % (id, m)
dst = "/verif/seeded/%s-%s" % (id, m)
os.makedirs(dst, exist_ok=True)
for f in glob.glob(src + "/*"):
    if os.path.basename(f).endswith((".log",)):
        continue
    shutil.copy(f, dst)
res = ""
for log in glob.glob("/tmp/mut/verify_batch*.log"):
    for l in open(log):
        if l.startswith("%s %s:" % (id, m)):
            res = l.strip()
meta = dict(property=id, breaks=id, needs_to_manifest=needs,
            confirmed_by="tools/verify_seed.sh in a scratch worktree of /repo: go build ./..., full go test -vet=off -count=1 ./..., demonstration with and without the change",
            confirmation=res, detected_by=[])
old = os.path.join(dst, "meta.json")
if os.path.exists(old):
    meta["detected_by"] = json.load(open(old)).get("detected_by", [])
json.dump(meta, open(old, "w"), indent=1)
print(dst, res[-60:])
