#!/bin/bash
# try_seed.sh <seeded dir name e.g. C19-m1> <property ids...>
# Runs the quick checks of the given properties against a scratch copy of /repo with the seeded change applied.
# /repo itself is not touched; evidence and replays go to a scratch directory.
set -u
S=$1; shift
W=$(mktemp -d /tmp/seedrun-XXXX)
cp -r /repo "$W/repo" && rm -rf "$W/repo/.git"
( cd "$W/repo" && patch -p1 -s < /verif/seeded/$S/patch.diff ) || { echo "$S: patch failed"; rm -rf "$W"; exit 2; }
for P in "$@"; do
  out=$(cd /verif && VERIF_REPO="$W/repo" VERIF_EVIDENCE_DIR="$W/ev" VERIF_REPLAY_DIR="$W/rp" ./check $P --tier ${TIER:-quick} 2>&1)
  rc=$?
  nv=$(echo "$out" | grep -c '^VIOLATION')
  echo "$S $P rc=$rc violations=$nv :: $(echo "$out" | grep -m1 DIVERGENCE | cut -c1-260)"
done
rm -rf "$W"
