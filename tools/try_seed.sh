#!/bin/bash
# try_seed.sh <seeded dir name e.g. C19-m1> <property ids...>
# Runs the checks of the given properties against a scratch worktree of /repo (current HEAD, i.e. with hooks and
# fixes) with the seeded change applied (3-way, the patches were made against the pinned commit).
# /repo's working tree is not touched; evidence and replays go to a scratch directory.
set -u
S=$1; shift
W=$(mktemp -d /tmp/seedrun-XXXX)
git -C /repo worktree add -f --detach "$W/repo" HEAD >/dev/null 2>&1 || { echo "$S: worktree failed"; exit 2; }
( cd "$W/repo" && git apply --3way /verif/seeded/$S/patch.diff >/dev/null 2>&1 ) || { echo "$S: patch failed"; git -C /repo worktree remove --force "$W/repo"; rm -rf "$W"; exit 2; }
if grep -q '^<<<<<<<' -r "$W/repo" --include=*.go 2>/dev/null; then echo "$S: patch conflicts"; git -C /repo worktree remove --force "$W/repo"; rm -rf "$W"; exit 2; fi
for P in "$@"; do
  out=$(cd /verif && VERIF_REPO="$W/repo" VERIF_EVIDENCE_DIR="$W/ev" VERIF_REPLAY_DIR="$W/rp" timeout ${TRY_TIMEOUT:-900} ./check $P --tier ${TIER:-quick} 2>&1)
  rc=$?
  nv=$(echo "$out" | grep -c '^VIOLATION')
  echo "$S $P rc=$rc violations=$nv :: $(echo "$out" | grep -m1 DIVERGENCE | cut -c1-260)"
done
git -C /repo worktree remove --force "$W/repo" >/dev/null 2>&1; git -C /repo worktree prune
rm -rf "$W"
