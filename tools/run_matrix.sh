#!/bin/bash
# run_matrix.sh [seed names...]: runs, for every seeded change, the quick check of its property against a scratch
# worktree of /repo's HEAD with the change applied (patch.ported.diff when present) and writes seeded/MATRIX.txt.
cd /verif
out=seeded/MATRIX.txt
seeds="$@"
[ -z "$seeds" ] && { seeds=$(ls seeded | grep -e '-m[0-9]*$'); : > $out; }
for S in $seeds; do
  P=${S%%-*}
  patch=seeded/$S/patch.diff
  [ -f seeded/$S/patch.ported.diff ] && patch=seeded/$S/patch.ported.diff
  W=$(mktemp -d /tmp/seedrun-XXXX)
  git -C /repo worktree add -f --detach "$W/repo" HEAD >/dev/null 2>&1 || { echo "$S: worktree failed" >> $out; continue; }
  if ! ( cd "$W/repo" && git apply --3way /verif/$patch >/dev/null 2>&1 ) || grep -q '^<<<<<<<' -r "$W/repo" --include=*.go 2>/dev/null; then
    echo "$S $P patch-does-not-apply" >> $out
  else
    props="$P"
    [ "$S" = "C11-m2" ] && props="C11 C10"
    for Q in $props; do
      o=$(VERIF_REPO="$W/repo" VERIF_EVIDENCE_DIR="$W/ev" VERIF_REPLAY_DIR="$W/rp" timeout 1500 ./check $Q --tier quick 2>&1); rc=$?
      echo "$S $Q rc=$rc violations=$(echo "$o" | grep -c '^VIOLATION') :: $(echo "$o" | grep -m1 -e DIVERGENCE -e MACHINERY | tr '\r' ' ' | cut -c1-220)" >> $out
    done
  fi
  git -C /repo worktree remove --force "$W/repo" >/dev/null 2>&1; git -C /repo worktree prune; rm -rf "$W"
done
