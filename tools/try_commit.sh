#!/bin/bash
# try_commit.sh <commit of /repo> <property ids...>: run checks against a scratch worktree of /repo at that commit
set -u
C=$1; shift
W=$(mktemp -d /tmp/commitrun-XXXX)
git -C /repo worktree add -f --detach "$W/repo" "$C" >/dev/null 2>&1 || { echo "worktree failed"; exit 2; }
for P in "$@"; do
  out=$(cd /verif && VERIF_REPO="$W/repo" VERIF_EVIDENCE_DIR="$W/ev" VERIF_REPLAY_DIR="$W/rp" timeout ${TRY_TIMEOUT:-900} ./check $P --tier ${TIER:-quick} 2>&1)
  echo "commit $C $P rc=$? violations=$(echo "$out" | grep -c '^VIOLATION') :: $(echo "$out" | grep -m2 -e DIVERGENCE -e MACHINERY | cut -c1-500)"
done
git -C /repo worktree remove --force "$W/repo" >/dev/null 2>&1; git -C /repo worktree prune; rm -rf "$W"
