#!/usr/bin/env python3
"""Regenerates /verif/MANIFEST.json from the table below (single source for the interface)."""
import json, os
V = os.path.dirname(os.path.dirname(os.path.abspath(__file__)))
props = [json.loads(l)["id"] for l in open(os.path.join(V, "properties.jsonl"))]

CHECKS = {
 "C19": dict(
    engine="bucketstore",
    technique="TLA+ contract spec (BucketStore.tla) model-checked by TLC; TLC-generated behaviours replayed on the real ldb store; recorded traces validated by TLC (BucketStoreTrace.tla)",
    category="model_checking",
    text="BucketStore.tla states the store as a tree of independent maps with one transactional working copy; TLC checks well-formedness, isolation, atomic commit and no-trace rollback exhaustively on a bounded configuration. TLC-generated behaviours over adversarial names/keys (separator, index-key and depth-digit imitations, prefixes of one another, NUL/0xff, over-long) are executed against the real LevelDB backend and, after every call, the result, the tree seen through the API and the tree seen by a handle opened on a copy of the directory must be the specification's; TLC decides acceptance per trace.",
    design_ref="DESIGN.md 5 (C19), 2",
    note="Trusted: goleveldb, the driver's dump through the public API (BucketNames/GetByPrefix), a copied directory as stand-in for a restart. Bounded: depth <= 3, the adversarial alphabet, 24-step behaviours; sampling of behaviours is seeded, not exhaustive."),
}

NOT_YET = "check not built yet in this session (planned, see DESIGN.md 10)"

ENGINES = [
 dict(name="bucketstore", path="specs/BucketStore*.tla harness/cmd/bucketdrv checks/c19_bucketstore.py", serves_properties=["C19"],
      kind_free_text="TLA+ spec + TLC model checking + scenario generation + trace validation against real ldb store"),
]

def main():
    checks, na = [], []
    for p in props:
        if p in CHECKS:
            c = CHECKS[p]
            checks.append(dict(property_id=p, quick_cmd="./check %s --tier quick" % p, thorough_cmd="./check %s --tier thorough" % p,
                               evidence_file="evidence/%s.json" % p, replay_cmd_template="./check %s --replay {path}" % p,
                               engine=c["engine"], technique=c["technique"],
                               level_claimed=dict(category=c["category"], text=c["text"], design_ref=c["design_ref"]),
                               level_note=c["note"]))
        else:
            na.append(dict(property_id=p, reason=NA.get(p, NOT_YET)))
    m = dict(version=1, setup_cmd="./setup.sh",
             hooks=dict(guard="verif", enable="go build -tags verif (harness module replaces massnet.org/mass => /repo)",
                        baseline_off_cmd="cd /repo && GOFLAGS=-mod=mod GOPROXY=off GOSUMDB=off GOTOOLCHAIN=local go test -vet=off -count=1 ./...",
                        source_commits=HOOK_COMMITS, add_only=True),
             engines=ENGINES, checks=checks, not_applicable=na,
             notes="Family: explicit TLA+ specifications checked by TLC and bound to the Go code by scenario replay and trace validation. See DESIGN.md.")
    json.dump(m, open(os.path.join(V, "MANIFEST.json"), "w"), indent=1)
    print("MANIFEST.json: %d checks, %d not_applicable" % (len(checks), len(na)))

NA = {}
HOOK_COMMITS = []
if __name__ == "__main__":
    main()
