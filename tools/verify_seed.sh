#!/bin/bash
# verify_seed.sh <worktree> <patch.diff> <demo file> <dest dir relative to repo root> <go test -run regex> <package path>
# Confirms, in a scratch worktree, that a seeded change (a) builds, (b) passes the existing suite,
# (c) its demonstration fails with the change and passes without it.  Prints one summary line.
set -u
export GOFLAGS=-mod=mod GOPROXY=off GOSUMDB=off GOTOOLCHAIN=local
WT=$1; PATCH=$2; DEMO=$3; DEST=$4; RUN=$5; PKG=$6
cd "$WT" || exit 2
git checkout -q -- . && git clean -qfd
git apply "$PATCH" || { echo "RESULT apply-failed"; exit 1; }
go build ./... 2>&1 | grep -v -e GNU-stack -e deprecated -e '^#' ; b=${PIPESTATUS[0]}
go test -vet=off -count=1 ./... > /tmp/vs_suite.$$ 2>&1; s=$?
cp "$DEMO" "$DEST/"
go test -vet=off -count=1 -run "$RUN" "$PKG" > /tmp/vs_with.$$ 2>&1; w=$?
git checkout -q -- .
go test -vet=off -count=1 -run "$RUN" "$PKG" > /tmp/vs_without.$$ 2>&1; wo=$?
rm -f "$DEST/$(basename $DEMO)"
git clean -qfd
echo "RESULT build=$b suite=$s demo_with_change=$w demo_pristine=$wo   ($(grep -c '^ok' /tmp/vs_suite.$$) pkgs ok; with: $(grep -m1 -e '--- FAIL' -e 'FAIL' /tmp/vs_with.$$ | head -c 100))"
rm -f /tmp/vs_suite.$$ /tmp/vs_with.$$ /tmp/vs_without.$$
[ $b = 0 ] && [ $s = 0 ] && [ $w != 0 ] && [ $wo = 0 ]
