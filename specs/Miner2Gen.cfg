CONSTANTS
  GenLen = 3
INIT GInit
NEXT GNext
INVARIANT Emit
CHECK_DEADLOCK FALSE
