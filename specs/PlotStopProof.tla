------------------------------- MODULE PlotStopProof -------------------------------
(* Unbounded: with the repaired close rule no StopPlot call panics, for any set of callers (TLC checks three). *)
EXTENDS PlotStop, TLAPS
ASSUME RuleFirst == CloseRule = "first"
SafeSpec == Init /\ [][Next]_vars
THEOREM NeverPanics == SafeSpec => []NoPanic
<1>1. Init => NoPanic
  BY DEF Init, NoPanic
<1>2. NoPanic /\ [Next]_vars => NoPanic'
  <2> SUFFICES ASSUME NoPanic, [Next]_vars PROVE NoPanic'
    OBVIOUS
  <2>1. CASE \E s \in Stoppers : Check(s)
    BY <2>1 DEF Check, NoPanic
  <2>2. CASE \E s \in Stoppers : Close(s)
    BY <2>2, RuleFirst DEF Close, NoPanic
  <2>3. CASE \E s \in Stoppers : Wait(s)
    BY <2>3 DEF Wait, NoPanic
  <2>4. CASE PlotEnds
    BY <2>4 DEF PlotEnds, NoPanic
  <2>5. CASE UNCHANGED vars
    BY <2>5 DEF vars, NoPanic
  <2> QED
    BY <2>1, <2>2, <2>3, <2>4, <2>5 DEF Next
<1> QED
  BY <1>1, <1>2, PTL DEF SafeSpec
=============================================================================
