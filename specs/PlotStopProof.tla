------------------------------- MODULE PlotStopProof -------------------------------
(* Unbounded: with the repaired rules (the flag is published together with the channel, the first caller closes) no
   StopPlot call panics, for any set of callers (TLC checks three). *)
EXTENDS PlotStop, TLAPS
ASSUME Repaired == CloseRule = "first" /\ StartRule = "together"
SafeSpec == Init /\ [][Next]_vars
Inv == ~panicked /\ ch # "none"
THEOREM NeverPanics == SafeSpec => []NoPanic
<1>1. Init => Inv
  BY Repaired DEF Init, Inv
<1>2. Inv /\ [Next]_vars => Inv'
  <2> SUFFICES ASSUME Inv, [Next]_vars PROVE Inv'
    OBVIOUS
  <2>1. CASE \E s \in Stoppers : Check(s)
    BY <2>1 DEF Check, Inv
  <2>2. CASE \E s \in Stoppers : Close(s)
    BY <2>2, Repaired DEF Close, Inv
  <2>3. CASE \E s \in Stoppers : Wait(s)
    BY <2>3 DEF Wait, Inv
  <2>4. CASE PlotEnds
    BY <2>4 DEF PlotEnds, Inv
  <2>5. CASE PlotStarts
    BY <2>5 DEF PlotStarts, Inv
  <2>6. CASE UNCHANGED vars
    BY <2>6 DEF vars, Inv
  <2> QED
    BY <2>1, <2>2, <2>3, <2>4, <2>5, <2>6 DEF Next
<1>3. Inv => NoPanic
  BY DEF Inv, NoPanic
<1> QED
  BY <1>1, <1>2, <1>3, PTL DEF SafeSpec
=============================================================================
