CONSTANTS
  Quals = {"qa", "qb", "qc"}
  Cols = {"k1", "k2"}
  W = 2
SPECIFICATION Spec
INVARIANTS DecidedRight NotBeforeSlot
CHECK_DEADLOCK FALSE
