CONSTANTS
  Dirs <- TDirs
  MaxOrd = 1000
  Targets = {}
INIT TInit
NEXT TNext
CONSTRAINT Mark
POSTCONDITION Done
CHECK_DEADLOCK FALSE
