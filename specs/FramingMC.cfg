SPECIFICATION Spec
INVARIANTS Emit NeverOversize AlwaysBounded
CHECK_DEADLOCK FALSE
