------------------------------- MODULE FractalImpl -------------------------------
(***************************************************************************)
(* Mechanism model of LocalSuperior's synchronisation (fractal/superior.go) *)
(* for the two findings of C17 that are listed and not repaired.  It models *)
(* what the code does, step by step:                                        *)
(*   AddTask      a1: (task lock) register the task's channel               *)
(*                a2: latestTask := t            (no lock)                  *)
(*                a3: (registry read lock) hand t to every registered       *)
(*                    collector                                             *)
(*   Subscribe    s1: (registry lock) register the collector                *)
(*                s2: read latestTask (no lock) and hand it over if set     *)
(*   report       r1: take the task lock, look the task up                  *)
(*                r2: send on the task's channel WHILE HOLDING the lock     *)
(*                    (blocks while the channel is full), then unlock       *)
(*   RemoveTask   m1: take the task lock, close and forget the channel,     *)
(*                    clear latestTask, unlock                              *)
(*   the waiter reads the channel, or stops reading (as the miner does      *)
(*   just before it removes the task).                                      *)
(* TLC shows both findings as reachable states of this model; the schedules *)
(* are the fixed schedules Wedge and DupBroadcast of harness/cmd/fractaldrv,*)
(* and only what the real code does there counts.                           *)
(***************************************************************************)
EXTENDS Naturals, FiniteSets, TLC

CONSTANTS Collectors, Reporters, Cap

VARIABLES tlock,      \* holder of the task lock, or "free"
          task,       \* "none" | "open" | "removed"
          ch,         \* number of unread reports in the task's channel
          latest,     \* latestTask set?
          reg,        \* registered collectors
          got,        \* hand-overs of the task per collector
          apc, spc, rpc, mpc, reading
vars == <<tlock, task, ch, latest, reg, got, apc, spc, rpc, mpc, reading>>

Init == /\ tlock = "free" /\ task = "none" /\ ch = 0 /\ latest = FALSE /\ reg = {}
        /\ got = [c \in Collectors |-> 0]
        /\ apc = "a1" /\ spc = [c \in Collectors |-> "s1"] /\ rpc = [r \in Reporters |-> "r1"] /\ mpc = "wait" /\ reading = TRUE

A1 == apc = "a1" /\ tlock = "free" /\ task' = "open" /\ apc' = "a2" /\ UNCHANGED <<tlock, ch, latest, reg, got, spc, rpc, mpc, reading>>
A2 == apc = "a2" /\ latest' = TRUE /\ apc' = "a3" /\ UNCHANGED <<tlock, task, ch, reg, got, spc, rpc, mpc, reading>>
A3 == apc = "a3" /\ got' = [c \in Collectors |-> IF c \in reg THEN got[c] + 1 ELSE got[c]] /\ apc' = "done"
      /\ UNCHANGED <<tlock, task, ch, latest, reg, spc, rpc, mpc, reading>>
S1(c) == spc[c] = "s1" /\ reg' = reg \cup {c} /\ spc' = [spc EXCEPT ![c] = "s2"] /\ UNCHANGED <<tlock, task, ch, latest, got, apc, rpc, mpc, reading>>
S2(c) == spc[c] = "s2" /\ got' = [got EXCEPT ![c] = IF latest THEN @ + 1 ELSE @] /\ spc' = [spc EXCEPT ![c] = "done"]
         /\ UNCHANGED <<tlock, task, ch, latest, reg, apc, rpc, mpc, reading>>
R1(r) == rpc[r] = "r1" /\ task = "open" /\ tlock = "free" /\ tlock' = r /\ rpc' = [rpc EXCEPT ![r] = "r2"]
         /\ UNCHANGED <<task, ch, latest, reg, got, apc, spc, mpc, reading>>
R2(r) == rpc[r] = "r2" /\ ch < Cap /\ ch' = ch + 1 /\ tlock' = "free" /\ rpc' = [rpc EXCEPT ![r] = "r1"]       \* blocked while ch = Cap
         /\ UNCHANGED <<task, latest, reg, got, apc, spc, mpc, reading>>
Take == reading /\ ch > 0 /\ ch' = ch - 1 /\ UNCHANGED <<tlock, task, latest, reg, got, apc, spc, rpc, mpc, reading>>
StopReading == reading /\ apc = "done" /\ reading' = FALSE /\ mpc' = "m1" /\ UNCHANGED <<tlock, task, ch, latest, reg, got, apc, spc, rpc>>
M1 == mpc = "m1" /\ tlock = "free" /\ task' = "removed" /\ latest' = FALSE /\ mpc' = "done"
      /\ UNCHANGED <<tlock, ch, reg, got, apc, spc, rpc, reading>>
Next == A1 \/ A2 \/ A3 \/ Take \/ StopReading \/ M1 \/ \E c \in Collectors : S1(c) \/ S2(c) \/ \E r \in Reporters : R1(r) \/ R2(r)
Spec == Init /\ [][Next]_vars

\* F-C17b: a collector that subscribes between a2 and a3 is handed the task twice
OnceEach == \A c \in Collectors : got[c] <= 1
\* F-C17a: the waiter stopped reading, a reporter is parked in r2 holding the task lock: RemoveTask can never run
Wedged == mpc = "m1" /\ ~reading /\ ch = Cap /\ \E r \in Reporters : tlock = r
NoWedge == ~Wedged
=============================================================================
