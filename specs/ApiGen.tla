------------------------------- MODULE ApiGen -------------------------------
(* Behaviour generator for ApiControl.tla: the six handlers (also for an id that is well formed but not configured,
   "wx"), interleaved with plotter steps and plot outcomes and, now and then, a Remove / Delete issued on the keeper
   directly (so that the handlers meet spaces that no longer exist). *)
EXTENDS ApiControl, Json
CONSTANTS GenLen
VARIABLE hist
GOrder == <<"w1", "w2", "w3">>
RS(X) == RandomElement(IF Len(hist) >= 0 THEN X ELSE {})
Coin(n) == RS(1..n) = 1
W(n) == 1..n
Log(r) == hist' = Append(hist, r)
PCands == (IF CanRecv(K) THEN {Recv(K)} ELSE {}) \cup (IF CanStep1(K) THEN {Step1(K)} ELSE {})
          \cup (IF CanStep3(K) THEN {Step3(K)} ELSE {})
          \cup {Pop(K, x[1], x[2]) : x \in {y \in Spaces \X BOOLEAN : CanPop(K, y[1], y[2])}}
GInit == AInit /\ hist = <<[a |-> "Init", st |-> K.st]>>
Ones == {"PlotOne", "MineOne", "StopOne"}
GNext ==
  \/ \E i \in W(6) : \E c \in {RS(Ones)}, w \in {RS(Spaces)} :
        CanCall(c, K, w) /\ K' = H(c, K, Mn, w).k /\ Mn' = H(c, K, Mn, w).m /\ UNCHANGED Lk /\ Log([a |-> "Api", call |-> c, w |-> w])
  \/ \E c \in {RS(Ones)} : Coin(2) /\ UNCHANGED <<K, Mn, Lk>> /\ Log([a |-> "Api", call |-> c, w |-> "wx"])
  \/ \E i \in W(2) : Lk' = HLock(Mn, Lk).l /\ UNCHANGED <<K, Mn>> /\ Log([a |-> "Api", call |-> "Lock"])
  \/ \E i \in W(2) : \E good \in {RS(BOOLEAN)} : Lk' = HUnlock(Lk, good).l /\ UNCHANGED <<K, Mn>> /\ Log([a |-> "Api", call |-> "Unlock", good |-> good])
  \/ \E i \in W(3) : \E c \in {RS(Calls \ Ones)} :
        CanCall(c, K, "w1") /\ K' = H(c, K, Mn, "w1").k /\ Mn' = H(c, K, Mn, "w1").m /\ UNCHANGED Lk /\ Log([a |-> "Api", call |-> c])
  \/ \E w \in {RS(Spaces)}, a \in {RS({"Remove", "Delete"})} : K' = Act(K, w, a) /\ UNCHANGED <<Mn, Lk>> /\ Log([a |-> "Act", w |-> w, act |-> a])
  \/ \E i \in W(8) : PCands # {} /\ K' = RS(PCands) /\ UNCHANGED <<Mn, Lk>> /\ Log([a |-> "P"])
  \/ \E i \in W(4) : CanPlotEnd(K) /\ \E o \in {RS({"complete", "aborted"})} : K' = PlotEnd(K, o) /\ UNCHANGED <<Mn, Lk>> /\ Log([a |-> "PlotEnd", out |-> o])
Emit == Len(hist) = GenLen + 1 => PrintT(<<"BEHAVIOUR", ToJson(hist)>>)
=============================================================================
