CONSTANTS
  Leaves = {"c1", "c2"}
  Relays = {"r1", "r2"}
  Home <- MCHome
  RHome <- MCRHome
  TaskIds = {"t1"}
  Payloads = {"x", "y"}
  Auto = {"c2"}
  QCap = 2
SPECIFICATION Spec
CONSTRAINT Small
INVARIANTS TargetOnly BroadcastReaches Bounded TreeUp
PROPERTIES ReportOnlyToNamed NoDeliveryAfterRemove OncePerEvent OutageKeeps LostWhileDown
CHECK_DEADLOCK FALSE
