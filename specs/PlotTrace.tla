------------------------------- MODULE PlotTrace -------------------------------
(***************************************************************************)
(* Trace validation of the real plotter (harness/cmd/plotdrv) against the  *)
(* durability protocol and the verdicts of PlotTable.tla.  One event per   *)
(* scenario: the schedule that was run, what the finished table looks     *)
(* like, the system calls of a traced run (data writes as record ranges,   *)
(* syncs, checkpoint writes, the unlink of table A) and the outcome of     *)
(* reopening every crash image.                                            *)
(*   Durability protocol: a checkpoint value v may be written only when    *)
(*   every record it declares final ([0, v) in table A, [0, 4v) in table   *)
(*   B) has been written AND synced; table A is unlinked only after B's    *)
(*   final checkpoint is durable.                                          *)
(***************************************************************************)
EXTENDS Integers, Sequences, FiniteSets, TLC, Json
Traces == ndJsonDeserialize("traces.ndjson")
VARIABLES tr, l
ASSUME TLCSet(1, {}) /\ TLCSet(2, [i \in DOMAIN Traces |-> 0])

Max(a, b) == IF a > b THEN a ELSE b
\* st = [syn |-> synced prefix per map (records), pend |-> unsynced data ranges, vck |-> volatile checkpoint, dck |-> durable]
St0 == [syn |-> [A |-> 0, B |-> 0], pend |-> [A |-> {}, B |-> {}], vck |-> [A |-> 0, B |-> 0], dck |-> [A |-> 0, B |-> 0], ok |-> TRUE]
\* extend the synced prefix with every pending range that touches it
RECURSIVE Extend(_, _)
Extend(p, rs) == IF \E r \in rs : r[1] <= p /\ r[2] > p
                 THEN LET r == CHOOSE q \in rs : q[1] <= p /\ q[2] > p IN Extend(r[2], rs \ {r})
                 ELSE p
Final(m, v) == IF m = "A" THEN v ELSE 4 * v
StepSys(st, e, half) ==
  CASE e.e = "data"   -> [st EXCEPT !.pend[e.m] = @ \cup {<<e.lo, e.hi>>}]
    [] e.e = "sync"   -> [st EXCEPT !.syn[e.m] = Extend(@, st.pend[e.m]), !.pend[e.m] = {}, !.dck[e.m] = st.vck[e.m]]
    [] e.e = "ckpt"   -> [st EXCEPT !.vck[e.m] = e.v,
                                    !.ok = @ /\ Final(e.m, e.v) <= st.syn[e.m]]          \* progress never ahead of durable data
    [] e.e = "unlink" -> [st EXCEPT !.ok = @ /\ e.m = "A" /\ st.dck["B"] >= half]         \* A goes only after B is durably complete
    [] OTHER -> st
RECURSIVE Walk(_, _, _, _)
Walk(seq, i, st, half) == IF i > Len(seq) THEN st.ok ELSE Walk(seq, i + 1, StepSys(st, seq[i], half), half)

Pow2(n) == IF n = 8 THEN 256 ELSE IF n = 9 THEN 512 ELSE IF n = 10 THEN 1024 ELSE IF n = 11 THEN 2048 ELSE IF n = 12 THEN 4096 ELSE 65536
Step(e) ==
  /\ e.a = "Plot" /\ e.res = "plotted"            \* every schedule of windows and stops ends in a plotted space (C10: resumes terminate)
  /\ e.sound = TRUE /\ e.complete = TRUE          \* C07: every entry valid, every constructible slot filled
  /\ e.equal = TRUE                               \* C10 / C07: equal to the table of the construction (= an uninterrupted run)
  /\ e.aLeft = FALSE
  /\ e.fileslost = <<>>                          \* no graceful stop erased a table of an unfinished plot
  /\ ("syscalls" \in DOMAIN e => Walk(e.syscalls, 1, St0, Pow2(e.bl) \div 2) /\ e.badimages = <<>> /\ e.images > 0)

TInit == tr \in DOMAIN Traces /\ l = 1
TNext == /\ l <= Len(Traces[tr].ev) /\ Step(Traces[tr].ev[l])
         /\ l' = l + 1 /\ UNCHANGED tr
Mark == /\ (IF l - 1 > TLCGet(2)[tr] THEN TLCSet(2, [TLCGet(2) EXCEPT ![tr] = l - 1]) ELSE TRUE)
        /\ (IF l = Len(Traces[tr].ev) + 1 THEN TLCSet(1, TLCGet(1) \cup {tr}) ELSE TRUE)
Done == PrintT(<<"ACCEPTED", ToJson(TLCGet(1))>>) /\ PrintT(<<"HW", ToJson(TLCGet(2))>>)
=============================================================================
