------------------------------- MODULE HDKey -------------------------------
(***************************************************************************)
(* BIP32 hierarchical key derivation as used by the wallet                 *)
(* (poc/wallet/keystore/hdkeychain, hd.go) and BIP39 mnemonics             *)
(* (mnemonic.go).  Serves C18.                                             *)
(*                                                                         *)
(* Part 1 fixes the derivation formulae over abstract operators and checks *)
(* the algebraic laws of the property on a toy instantiation (a group of   *)
(* prime order 13 with a table hash): TLC cannot evaluate HMAC-SHA512 or   *)
(* secp256k1, the laws do not depend on them.                              *)
(*                                                                         *)
(* Part 2 enumerates derivation programs - seed length class, then a path  *)
(* of steps: hardened / normal child, the same with a child key whose      *)
(* 32-byte scalar has a leading zero byte, "derive a child and zero it",   *)
(* "replace the key by Parse(Ser(key))" - and mnemonic cases.  Every       *)
(* program is run by the driver on hdkeychain and, in lock-step, on a      *)
(* line-by-line Go transcription of the formulae of part 1 over the real   *)
(* HMAC-SHA512 / secp256k1; after every step the serialised keys must be   *)
(* equal and the laws must hold on the real keys.                          *)
(***************************************************************************)
EXTENDS Integers, Sequences, FiniteSets, TLC

(* ------------------------------ part 1: formulae ------------------------------ *)
N == 13                                   \* toy group order (prime)
Pt(k) == (k * 2) % N                      \* point(k) = k*G in the toy group (G = 2 in Z_13, +)
PAdd(a, b) == (a + b) % N
\* I = HMAC512(chain, data): a table hash giving <<IL, IR>>; data is <<tag, x, i>>, tag 0 = 0x00||ser256(k), 1 = serP(K)
HM(c, tag, x, i) == <<(c * 7 + tag * 5 + x * 3 + i * 11 + 1) % 17, (c * 3 + tag + x * 5 + i * 7 + 2) % 19>>
Hardened(i) == i >= 4                     \* toy: indices 0..3 normal, 4..7 hardened

\* CKDpriv((k, c), i): NoKey when IL >= n or the child is 0
NoKey == [none |-> TRUE]
CKDpriv(k, c, i) == LET I == IF Hardened(i) THEN HM(c, 0, k, i) ELSE HM(c, 1, Pt(k), i)
                    IN IF I[1] >= N \/ (I[1] + k) % N = 0 THEN NoKey ELSE [k |-> (I[1] + k) % N, c |-> I[2]]
\* CKDpub((K, c), i), normal i only
CKDpub(K, c, i) == LET I == HM(c, 1, K, i)
                   IN IF I[1] >= N \/ PAdd(Pt(I[1]), K) = 0 THEN NoKey ELSE [K |-> PAdd(Pt(I[1]), K), c |-> I[2]]
Neuter(x) == [K |-> Pt(x.k), c |-> x.c]
\* serialisation keeps every component at fixed width, so parsing restores the components exactly
Ser(x) == <<x.k \div 10, x.k % 10, x.c \div 10, x.c % 10>>        \* two fixed-width "digits" per component
Parse(s) == [k |-> s[1] * 10 + s[2], c |-> s[3] * 10 + s[4]]

Keys == 1..(N - 1)
Chains == 0..18
Idx == 0..7
\* the public half of a normal private derivation is the public derivation of the public half
NeuterLaw == \A k \in Keys, c \in Chains, i \in {j \in Idx : ~Hardened(j)} :
    LET a == CKDpriv(k, c, i) b == CKDpub(Pt(k), c, i) IN (a = NoKey <=> b = NoKey) /\ (a # NoKey => Neuter(a) = b)
\* serialising and parsing gives a key that derives the same children (in particular for keys with a leading zero digit)
RoundTripLaw == \A k \in Keys, c \in Chains, i \in Idx :
    LET x == [k |-> k, c |-> c] IN Parse(Ser(x)) = x /\ CKDpriv(Parse(Ser(x)).k, Parse(Ser(x)).c, i) = CKDpriv(k, c, i)
ASSUME NeuterLaw /\ RoundTripLaw

(* ------------------------------ part 2: programs ------------------------------ *)
SeedClasses == {"len16", "len32", "len64", "len15", "len65"}
Ops == {"H", "N", "Hz", "Nz", "Z", "R", "P"}          \* P: continue on the public half (Neuter)
MaxSteps == 4
Paths == UNION {[1..n -> Ops] : n \in 0..MaxSteps}
\* a path is sensible if it takes at most two leading-zero searches and nothing hardened after going public
Sensible(p) == /\ Cardinality({i \in DOMAIN p : p[i] \in {"Hz", "Nz"}}) <= 2
               /\ \A i, j \in DOMAIN p : p[i] = "P" /\ j > i => p[j] \in {"N", "R", "Z"}
               /\ Cardinality({i \in DOMAIN p : p[i] = "P"}) <= 1
Programs == {[kind |-> "derive", seed |-> s, path |-> p] : s \in {"len16", "len32", "len64"}, p \in {q \in Paths : Sensible(q)}}
       \cup {[kind |-> "derive", seed |-> s, path |-> <<>>] : s \in {"len15", "len65"}}
       \cup {[kind |-> "deep", seed |-> "len32", path |-> <<>>]}

EntropyBits == {128, 160, 192, 224, 256}
EntropyClasses == {"allzero", "leadingzero", "twoleadingzeros", "allones", "trailingzero", "random"}
Corruptions == {"none", "badword", "dropword", "extraword", "emptysentence"}
Mnemonics == {[kind |-> "mnemonic", bits |-> b, class |-> c, corrupt |-> x] : b \in EntropyBits, c \in EntropyClasses, x \in Corruptions}
        \cup {[kind |-> "mnemonic", bits |-> b, class |-> "random", corrupt |-> "none"] : b \in {120, 136, 264, 0}}     \* sizes that are not permitted

Cases == Programs \cup Mnemonics
NoCase == [kind |-> "none"]

\* what the specification fixes: a master key exists iff the seed has 16..64 bytes; every step of a sensible path has
\* a result (invalid children, probability < 2^-127, are skipped by the driver); all keys equal the formulae's;
\* depth 255 is the last; a mnemonic of a permitted size round-trips to its entropy, a corrupted one is refused
Expect(c) ==
  CASE c.kind = "derive"   -> [master |-> c.seed \in {"len16", "len32", "len64"}]
    [] c.kind = "deep"     -> [master |-> TRUE]
    [] c.kind = "mnemonic" -> [made |-> c.bits \in EntropyBits, back |-> c.bits \in EntropyBits /\ c.corrupt = "none"]

VARIABLE case, verdict
Init == case = NoCase /\ verdict = NoCase
Next == \E c \in Cases : case = NoCase /\ case' = c /\ verdict' = Expect(c)
Spec == Init /\ [][Next]_<<case, verdict>>
=============================================================================
