CONSTANTS
  Wallets = {"w1"}
  Seeds = {"s1", "s2", "s3"}
  Pass = {"p1", "p2", "p3", "q1", "q2", "bad"}
  BadPass <- GBad
  Remarks = {"", "r1", "r2"}
  MaxIdx = 5
  FileIds = {"f1", "f2", "f3"}
  TamperFields = {"json", "remark", "cipher", "kdf", "masterHDPrivKeyEnc", "pubParams", "privParams", "cryptoKeyPubEnc", "cryptoKeyPrivEnc", "Purpose", "Coin", "Account", "ExternalChildNum", "InternalChildNum"}
  WithObservers = TRUE
  GenLen = 16
  Focus = "fault"
INIT GInitTwoKs
NEXT GNext
INVARIANT Emit
CHECK_DEADLOCK FALSE
