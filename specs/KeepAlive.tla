------------------------------- MODULE KeepAlive -------------------------------
(***************************************************************************)
(* Keep-alive of a cluster connection (fractal/connection/conn.go:         *)
(* keepaliveRoutine, alivenessMonitor, handleCtrlMsg, maintainKeepalive),  *)
(* both ends.  Serves C17: "dropping a connection at any moment ...        *)
(* causes no permanent blocking" - also when the connection is lost        *)
(* without a reset (a peer that went away silently, a black-holed path):   *)
(* only the keep-alive notices that.                                       *)
(*                                                                         *)
(* Time advances in ticks.  An end is active (sends a control frame every  *)
(* I ticks) or passive (answers every control frame with one); every       *)
(* control or data frame received resets the end's aliveness timer; a      *)
(* timer that reaches T stops the end, which closes the socket; on a path  *)
(* that still works the other end sees that at once and stops too.         *)
(* As deployed: the pool's end is active (29 s), a relay's or collector's  *)
(* end passive, T = 60 s at both.                                          *)
(*                                                                         *)
(*   sc        the scenario: modes, when the path goes dark (after the     *)
(*             events of tick sc.hole; 0: never), who sends data when      *)
(*   now, up   the tick, the path works                                    *)
(*   run[e]    the end is running;  last[e]  tick of its last timer reset  *)
(*   stop[e]   the tick at which it stopped (0: running)                   *)
(***************************************************************************)
EXTENDS Naturals, FiniteSets, TLC
CONSTANTS I, T, Horizon
Ends == {"A", "B"}
Peer(e) == IF e = "A" THEN "B" ELSE "A"
DataPlans == {"none", "AB", "BA", "ABearly"}       \* data every second tick in one direction; ABearly: only up to tick 6
Holes == {0, 1, 3, 4, 7}
Scenarios == {[mode |-> m, hole |-> h, data |-> d] : m \in [Ends -> {"active", "passive"}], h \in Holes, d \in DataPlans}

VARIABLES sc, S
vars == <<sc, S>>
S0 == [now |-> 0, up |-> TRUE, run |-> [e \in Ends |-> TRUE], last |-> [e \in Ends |-> 0], stop |-> [e \in Ends |-> 0]]
Init == sc \in Scenarios /\ S = S0

\* who sends at tick t
Pings(c, t, r) == {e \in Ends : r[e] /\ c.mode[e] = "active" /\ t % I = 0}
Sends(c, t, r) == IF t % 2 # 0 THEN {} ELSE
               CASE c.data = "AB" -> IF r["A"] THEN {"A"} ELSE {}
                 [] c.data = "BA" -> IF r["B"] THEN {"B"} ELSE {}
                 [] c.data = "ABearly" -> IF r["A"] /\ t <= 6 THEN {"A"} ELSE {}
                 [] OTHER -> {}
\* ends whose timer is reset at tick t: they receive a control frame, a pong, or data
Reset(c, t, r, u) == IF ~u THEN {} ELSE
  {e \in Ends : r[e] /\ \/ Peer(e) \in Pings(c, t, r)                                            \* a ping arrives
                        \/ e \in Pings(c, t, r) /\ r[Peer(e)] /\ c.mode[Peer(e)] = "passive"    \* the passive peer answers it
                        \/ Peer(e) \in Sends(c, t, r)}                                            \* data arrives
\* one tick, as a function of the scenario and the state (the trace specification iterates it)
Step(c, s) ==
  LET t == s.now + 1
      rs == Reset(c, t, s.run, s.up)
      l2 == [e \in Ends |-> IF e \in rs THEN t ELSE s.last[e]]
      out == {e \in Ends : s.run[e] /\ t - l2[e] >= T}                       \* timers that have run out
      \* an end that stops closes its socket: on a working path the peer sees that and stops as well
      gone == IF s.up /\ out # {} THEN {e \in Ends : s.run[e]} ELSE out
  IN [now |-> t, last |-> l2,
      run |-> [e \in Ends |-> s.run[e] /\ e \notin gone],
      stop |-> [e \in Ends |-> IF e \in gone THEN t ELSE s.stop[e]],
      up |-> (s.up /\ (c.hole = 0 \/ t < c.hole))]                       \* the path goes dark after the events of tick c.hole
Tick == S.now < Horizon /\ S' = Step(sc, S) /\ UNCHANGED sc
Spec == Init /\ [][Tick]_vars
RECURSIVE RunTo(_, _, _)
RunTo(c, s, n) == IF s.now >= n THEN s ELSE RunTo(c, Step(c, s), n)
Outcome(c) == RunTo(c, S0, Horizon).stop
now == S.now
run == S.run

(* ------------------------------ properties ------------------------------ *)
Healthy == sc.hole = 0
SomeActive == \E e \in Ends : sc.mode[e] = "active"
\* a working connection with an active end is never dropped by the keep-alive (needs I < T)
NoSpuriousDrop == Healthy /\ SomeActive => \A e \in Ends : run[e]
\* once the path is dark every end stops within T ticks of the last frame it got: by tick hole + T at the latest
DeadPeerNoticed == sc.hole # 0 /\ now >= sc.hole + T => \A e \in Ends : ~run[e]
\* a silent connection between two passive ends is dropped at T although nothing is wrong with it (as deployed one end
\* of every connection is active)
TwoPassiveSilentDropped == Healthy /\ ~SomeActive /\ sc.data = "none" /\ now >= T => \A e \in Ends : ~run[e]
\* data alone keeps only its receiver's timer fresh: with two passive ends the sender still runs out
DataIsNotEnough == Healthy /\ ~SomeActive /\ sc.data = "AB" /\ now >= T => \A e \in Ends : ~run[e]
=============================================================================
