CONSTANTS
  Threads = {"t1", "t2", "t3"}
  ChanCap = 2
  MaxReq = 3
  SendRule = "block"
  PopRule = "checked"
SPECIFICATION Spec
INVARIANT WedgeUnreachable
CHECK_DEADLOCK FALSE
