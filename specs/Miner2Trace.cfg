CONSTANTS
  Quals = {"qa", "qb", "qc", "qd", "qe"}
  Cols = {"k1", "k2", "k3"}
  W = 4
INIT TInit
NEXT TNext
CONSTRAINT Mark
POSTCONDITION Done
CHECK_DEADLOCK FALSE
