CONSTANTS
  Wallets = {"w1", "w2"}
  Seeds = {"s1", "s2", "s3", "sX"}
  Pass = {"p1", "p2", "p3", "q1", "q2", "bad"}
  BadPass <- TBad
  Remarks = {"", "r1", "r2"}
  MaxIdx = 5
  FileIds = {"f1", "f2", "f3"}
  TamperFields = {"json", "remark", "cipher", "kdf", "masterHDPrivKeyEnc", "pubParams", "privParams", "cryptoKeyPubEnc", "cryptoKeyPrivEnc", "Purpose", "Coin", "Account", "ExternalChildNum", "InternalChildNum"}
  WithObservers = TRUE
INIT TInit
NEXT TNext
CONSTRAINT Mark
POSTCONDITION Done
CHECK_DEADLOCK FALSE
