------------------------------- MODULE WalletTrace -------------------------------
(***************************************************************************)
(* Trace validation for Wallet.tla.  traces.ndjson holds one scenario per  *)
(* line, recorded by harness/cmd/walletdrv from the real keystore manager. *)
(* Each event carries the call (type + abstract arguments), whether an     *)
(* injected fault fired, the result, and projections taken after the call: *)
(*   run[w]  the running instance through the public API                   *)
(*   reo[w]  an instance opened on a copy of the store: keystores, which   *)
(*           public passphrases open it, which private ones unlock it, the *)
(*           next index each branch hands out                              *)
(*   sec[w]  kinds of usable secret material in memory                     *)
(*   sig[w]  issued keys whose signatures verify under exactly that key    *)
(*   clear   places where a secret occurs unencrypted (store, export, log) *)
(*   keyok   the map abstract key <-> public key bytes stayed a bijection  *)
(* A step is accepted iff it is Wallet!Apply of that call and every        *)
(* projection equals the specification state after it.                     *)
(*                                                                         *)
(* Known deviations of the code are separate, named disjuncts with the prefix KF_: they *)
(* let validation continue past a listed finding and record its tag in TLC *)
(* register 3; the orchestrator prints KNOWN-FINDING for listed tags and   *)
(* treats an unlisted tag as a violation.                                  *)
(***************************************************************************)
EXTENDS Wallet, Json, SequencesExt

Traces == ndJsonDeserialize("traces.ndjson")
VARIABLES tr, l
tvars == <<S, tr, l>>

ASSUME TLCSet(1, {}) /\ TLCSet(2, [i \in DOMAIN Traces |-> 0]) /\ TLCSet(3, {})

TBad == {"bad"}
Flag(tag) == TLCSet(3, TLCGet(3) \cup {<<tr, tag>>})

Fld(e, f, dflt) == IF f \in DOMAIN e THEN e[f] ELSE dflt

\* the operations a recorded call can stand for: one, except that the owner of a GenKey whose reply was lost
\* in a crash is not known
OpsOf(e) ==
  CASE e.a = "Open"   -> {[t |-> "Open", w |-> e.w, q |-> e.q]}
    [] e.a \in {"Close", "Lock"} -> {[t |-> e.a, w |-> e.w]}
    [] e.a = "NewKs"  -> {[t |-> "NewKs", w |-> e.w, p |-> e.p, s |-> e.s, r |-> e.r]}
    [] e.a = "NextAddr" -> {[t |-> "NextAddr", w |-> e.w, s |-> e.s, b |-> e.b, n |-> e.n]}
    [] e.a = "GenKey" -> IF "s" \in DOMAIN e.out THEN {[t |-> "GenKey", w |-> e.w, s |-> e.out.s]}
                         ELSE {[t |-> "GenKey", w |-> e.w, s |-> x] : x \in Seeds}
    [] e.a = "Remark" -> {[t |-> "Remark", w |-> e.w, s |-> e.s, r |-> e.r]}
    [] e.a \in {"ChangePriv", "ChangePub"} -> {[t |-> e.a, w |-> e.w, old |-> e.old, new |-> e.new]}
    [] e.a = "Delete" -> {[t |-> "Delete", w |-> e.w, s |-> e.s, p |-> e.p]}
    [] e.a = "Export" -> {[t |-> "Export", w |-> e.w, s |-> e.s, p |-> e.p, f |-> e.f]}
    [] e.a = "Import" -> {[t |-> "Import", w |-> e.w, f |-> e.f, old |-> e.old, new |-> e.new]}
    [] e.a = "Tamper" -> {[t |-> "Tamper", f |-> e.f, fld |-> e.fld]}
    [] e.a = "Unlock" -> {[t |-> "Unlock", w |-> e.w, p |-> e.p]}
    [] e.a \in {"Sign", "Ordinal"} -> {[t |-> e.a, w |-> e.w, s |-> e.s, b |-> e.b, i |-> e.i]}

Range0(n) == {i \in 0..MaxIdx : i < n}
SeqIs(q, n) == Len(q) = n /\ ToSet(q) = Range0(n)

\* a projected keystore map equals the specification's
KsOK(p, s, w) ==
  /\ DOMAIN p = Present(s, w)
  /\ \A x \in Present(s, w) : /\ p[x].remark = s.ks[w][x].remark
                              /\ SeqIs(p[x].ext, s.ks[w][x].ext)
                              /\ SeqIs(p[x].int, s.ks[w][x].int)

WFPass == {p \in Pass : WF(p)}
IssuedKeys(s, w) == {<<x, b, i>> \in Seeds \X {0, 1} \X (0..MaxIdx) : Issued(s, w, x, b, i)}

RunOK(e, s) == \A w \in Wallets :
   IF s.up[w] THEN /\ "closed" \notin DOMAIN e.run[w]
                   /\ KsOK(e.run[w].ks, s, w)
                   /\ e.run[w].locked = ~s.unlocked[w]
              ELSE "closed" \in DOMAIN e.run[w]

ReoOK(e, s) == "reo" \in DOMAIN e => \A w \in Wallets :
   LET r == e.reo[w] IN
   /\ "err" \notin DOMAIN r
   /\ KsOK(r.ks, s, w)
   /\ r.locked = TRUE
   /\ ToSet(r.opens) = IF HasKs(s, w) THEN {s.pub[w]} ELSE WFPass      \* C02: only the current public passphrase opens
   /\ (HasKs(s, w) => ToSet(r.unlocks) = {s.priv[w]})                  \* C03: only the current private passphrase unlocks
   /\ \A x \in Present(s, w) : r.next[x].ext = s.ks[w][x].ext /\ r.next[x].int = s.ks[w][x].int   \* C06/C02: next indices
   /\ "sigbad" \notin DOMAIN r
   /\ (HasKs(s, w) => r.signable_after_unlock = Cardinality(IssuedKeys(s, w)))

SecOK(e, s) == \A w \in Wallets : ~(s.up[w] /\ s.unlocked[w]) => e.sec[w] = <<>>       \* C03: locked => no secret in memory
SigOK(e, s) == /\ e.sigbad = <<>>
               /\ \A w \in Wallets : {<<k[1], k[2], k[3]>> : k \in ToSet(e.sig[w])} =
                                     IF s.up[w] /\ s.unlocked[w] THEN IssuedKeys(s, w) ELSE {}   \* C05 / C03
ClearOK(e) == "clear" \in DOMAIN e => e.clear = <<>>                                   \* C04
\* C12: after an operation that reported a storage error and let the process go on, the running instance still behaves as
\* before towards passphrases: exactly the current private passphrase unlocks it
RunlOK(e, s) == "runl" \in DOMAIN e => \A w \in DOMAIN e.runl : HasKs(s, w) => ToSet(e.runl[w]) = {s.priv[w]}
ProjOK(e, s) == RunOK(e, s) /\ ReoOK(e, s) /\ SecOK(e, s) /\ SigOK(e, s) /\ ClearOK(e) /\ RunlOK(e, s) /\ e.keyok = TRUE

\* outputs of a successful call
OutOK(e, op, s) ==
  CASE e.a \in {"NewKs"} -> e.out.id = e.s
    [] e.a = "NextAddr"  -> e.out.idx = [i \in 1..op.n |-> Count(s.ks[op.w][op.s], op.b) + i - 1]
    [] e.a = "GenKey"    -> Has(s, op.w, e.out.s) /\ e.out.idx = s.ks[op.w][e.out.s].ext
    [] e.a = "Import"    -> e.out.id = s.files[op.f].seed /\ e.out.remark = s.files[op.f].remark
    [] e.a = "Sign"      -> e.out.verifies = TRUE /\ "shortdigest" \notin DOMAIN e.out
    [] e.a = "Ordinal"   -> e.out.idx = op.i
    [] OTHER -> TRUE

\* the normal case: the call behaves as the specification says
Conform(e, op) ==
  \/ /\ e.fired = FALSE
     /\ S' = Apply(S, op, "none")
     /\ \/ e.res = (IF Ok(S, op) THEN "ok" ELSE "err")
        \* mirrored detail: Unlock with the current passphrase on an already unlocked wallet may report an error
        \/ op.t = "Unlock" /\ Ok(S, op) /\ S.unlocked[op.w] /\ e.res = "err"
     /\ (e.res = "ok" => OutOK(e, op, S))
  \* An injected fault fired: whatever the operation was doing, its outcome is all or nothing.  (Where a write
  \* transaction is opened is the code's business: e.g. a passphrase change on a wallet without keystores commits an
  \* empty transaction, so a fault can fire there although CanFault - the generator's notion - says no.)
  \/ /\ e.fired = TRUE /\ op.t \in Mutating
     /\ S' = (IF CanFault(S, op) THEN Apply(S, op, e.fault)
              ELSE CASE e.fault \in {"failwrite", "failcommit"} -> S
                     [] e.fault = "crashbefore" -> Restarted(S, op.w)
                     [] e.fault = "crashafter" -> Restarted(IF Ok(S, op) THEN Eff(S, op) ELSE S, op.w))
     /\ IF e.fault \in {"failwrite", "failcommit"} THEN e.res = "err"
        ELSE e.res = "crashed" /\ e.out.restarted = TRUE

(* ------------------------ known deviations (see known_findings.json) ------------------------ *)
\* F-C01: the exported file authenticates only masterHDPrivKeyEnc, privParams and cryptoKeyPrivEnc.
\* An import of a file tampered in one of the other fields is accepted ...
ImportWouldBeOk(s, op) ==
  IF s.files[op.f].tamper = "Account"
  THEN LET s2 == [s EXCEPT !.files[op.f].tamper = "none", !.files[op.f].seed = "sX"] IN "sX" \in Seeds /\ Ok(s2, op)
  ELSE LET s2 == [s EXCEPT !.files[op.f].tamper = "none"] IN Ok(s2, op)
KF_Import(e, op) ==
  /\ op.t = "Import" /\ e.fired = FALSE /\ e.res = "ok"
  /\ S.files[op.f] # NoFile /\ S.files[op.f].tamper # "none" /\ ImportWouldBeOk(S, op)
  /\ LET f == S.files[op.f]
         fld == f.tamper
         base == [S EXCEPT !.files[op.f].tamper = "none"]
     IN \/ \* ... with fields the import ignores: the wallet is as if the file were intact
           /\ fld \in {"cipher", "kdf", "pubParams", "cryptoKeyPubEnc", "Purpose", "Coin"}
           /\ S' = [Eff(base, op) EXCEPT !.files[op.f].tamper = fld]
           /\ Flag("C01-tamper-ignored:" \o fld)
        \/ \* ... with a forged remark
           /\ fld = "remark"
           /\ \E r \in {e.run[op.w].ks[f.seed].remark} :
                 S' = [Eff(base, op) EXCEPT !.files[op.f].tamper = fld, !.ks[op.w][f.seed].remark = r]
           /\ Flag("C01-tamper-accepted:remark")
        \/ \* ... with one more key on a branch
           /\ fld = "ExternalChildNum" /\ f.ext < MaxIdx
           /\ S' = [Eff(base, op) EXCEPT !.files[op.f].tamper = fld, !.ks[op.w][f.seed].ext = @ + 1]
           /\ Flag("C01-tamper-accepted:ExternalChildNum")
        \/ \* ... under a different keystore identity (pseudo seed "sX": the identifier is not the seed's any more)
           /\ fld = "Account" /\ "sX" \in Seeds
           /\ S' = [FixPriv(SetKs(S, op.w, "sX", [remark |-> f.remark, ext |-> f.ext, int |-> f.int]), op.w, ImportNew(op))
                        EXCEPT !.files[op.f].tamper = fld]
           /\ Flag("C01-tamper-accepted:Account")
        \/ /\ fld = "InternalChildNum" /\ f.int < MaxIdx
           /\ S' = [Eff(base, op) EXCEPT !.files[op.f].tamper = fld, !.ks[op.w][f.seed].int = @ + 1]
           /\ Flag("C01-tamper-accepted:InternalChildNum")

AllActs == {"Open", "Close", "Lock", "NewKs", "NextAddr", "GenKey", "Remark", "ChangePriv", "ChangePub", "Delete", "Export",
            "Import", "Tamper", "Unlock", "Sign", "Ordinal"}
\* a call during which the process died or panicked matches nothing
Alive(e) == e.a \in AllActs /\ e.res \in {"ok", "err", "crashed"} /\ "run" \in DOMAIN e

Step(e) == Alive(e) /\ \E op \in OpsOf(e) :
  /\ Enabled(S, op)
  /\ (Conform(e, op) \/ KF_Import(e, op))
  /\ ProjOK(e, S')

TInit == Init /\ tr \in DOMAIN Traces /\ l = 1
TNext == /\ l <= Len(Traces[tr].ev)
         /\ Step(Traces[tr].ev[l])
         /\ l' = l + 1 /\ UNCHANGED tr
TSpec == TInit /\ [][TNext]_tvars

Mark == /\ (IF l - 1 > TLCGet(2)[tr] THEN TLCSet(2, [TLCGet(2) EXCEPT ![tr] = l - 1]) ELSE TRUE)
        /\ (IF l = Len(Traces[tr].ev) + 1 THEN TLCSet(1, TLCGet(1) \cup {tr}) ELSE TRUE)
Done == /\ PrintT(<<"ACCEPTED", ToJson(TLCGet(1))>>) /\ PrintT(<<"HW", ToJson(TLCGet(2))>>)
        /\ PrintT(<<"FLAGS", ToJson(TLCGet(3))>>)
=============================================================================
