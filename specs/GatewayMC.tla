------------------------------- MODULE GatewayMC -------------------------------
EXTENDS Gateway, Json
Emit == case # NoCase => PrintT(<<"BEHAVIOUR", ToJson(<<[frame |-> case, expect |-> verdict]>>)>>)
=============================================================================
