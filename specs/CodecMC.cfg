SPECIFICATION Spec
INVARIANTS Total MsgNeedsType Emit
CHECK_DEADLOCK FALSE
