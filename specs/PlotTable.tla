------------------------------- MODULE PlotTable -------------------------------
(***************************************************************************)
(* Plot construction and its durability protocol                           *)
(* (poc/engine/massdb/massdb.v1: plot.go prePlotWork / plotWork,           *)
(* cache.go, hashmap.go checkpoints).  Serves C07 and C10.                 *)
(*                                                                         *)
(* A tiny abstract construction: values 0..N-1 (N a power of two,          *)
(* half = N/2), P : X -> X and F : X x X -> X chosen in Init.  Zero means  *)
(* "empty" in both tables (the file format cannot store x = 0).            *)
(*   table A, slot 2k   : the last x (ascending) with P(x) = k             *)
(*            slot 2k+1 : the last x with P(x) = ~k        (k < half)      *)
(*   table B, slot z    : for y ascending, with (x, x') = (A[2y], A[2y+1]) *)
(*                        both non-empty: B[F(x,x')] := (x,x'), then       *)
(*                        B[F(x',x)] := (x',x)                             *)
(* RefB is the table one uninterrupted single-window run produces.         *)
(*                                                                         *)
(* The code builds each table in windows: it scans everything, keeps what  *)
(* falls into [start, end), writes the window, syncs, records a checkpoint *)
(* and syncs again.  A window's size depends on the memory available when  *)
(* it starts (any size here).  The process may be stopped gracefully       *)
(* (between windows) or die at any point; after a death the file holds     *)
(* everything synced plus ANY SUBSET of the unsynced writes.  Reopening    *)
(* reads the durable checkpoints and resumes.                              *)
(*                                                                         *)
(* CkptRule selects what a finished window records as checkpoint:          *)
(*   "end"        the window's end point                                   *)
(*   "startPlus1" start + 1, and pass A forces an even window size         *)
(*                (the code as found at the pinned commit: F-C10)          *)
(***************************************************************************)
EXTENDS Integers, Sequences, FiniteSets, TLC

CONSTANTS N,          \* table volume (4 or 8)
          CkptRule,   \* "end" | "startPlus1"
          PChoices,   \* set of functions P to explore
          FChoices    \* set of functions F to explore

Half == N \div 2
X == 0..(N - 1)
Flip(v) == (N - 1) - v
Empty == 0

VARIABLES P, F,
          volA, durA,        \* table A: volatile (page cache) and durable image, [X -> X]
          volB, durB,        \* table B: [X -> <<x, x'>>]
          ckA, dckA,         \* checkpoint of A: volatile / durable   (0..N; N = pass finished)
          ckB, dckB,         \* checkpoint of B: 0..Half
          aExists,           \* table A's file exists
          pc,                \* "closed" | "A" | "Awritten" | "Asynced" | "Ackpt" | "B" | ... | "done"
          win,               \* <<start, end>> of the window in flight
          stuck              \* a pass chose a window that makes no progress

vars == <<P, F, volA, durA, volB, durB, ckA, dckA, ckB, dckB, aExists, pc, win, stuck>>

(* ------------------------------ the construction ------------------------------ *)
ASlot(p, i) == \* content of slot i of table A for function p: the largest x >= 1 mapped there
  LET k == i \div 2
      want == IF i % 2 = 0 THEN k ELSE Flip(k)
      S == {x \in 1..(N - 1) : p[x] = want}
  IN IF S = {} THEN Empty ELSE CHOOSE m \in S : \A y \in S : m >= y
RefA(p) == [i \in X |-> ASlot(p, i)]

\* table B from a table A: process y ascending; later writes win
RECURSIVE BFrom(_, _, _, _)
BFrom(a, f, y, b) ==
  IF y = Half THEN b
  ELSE LET x == a[2 * y] xp == a[2 * y + 1] IN
       IF x = Empty \/ xp = Empty THEN BFrom(a, f, y + 1, b)
       ELSE LET b1 == [b EXCEPT ![f[<<x, xp>>]] = <<x, xp>>]
                b2 == [b1 EXCEPT ![f[<<xp, x>>]] = <<xp, x>>]
            IN BFrom(a, f, y + 1, b2)
EmptyB == [z \in X |-> <<Empty, Empty>>]
RefB(p, f) == BFrom(RefA(p), f, 0, EmptyB)

\* C07: every stored entry is a valid proof for its slot, and every slot for which the construction yields a
\* proof has one
ValidEntry(p, f, z, e) == e = <<Empty, Empty>> \/ (e[1] # Empty /\ e[2] # Empty /\ p[e[1]] = Flip(p[e[2]]) /\ f[e] = z)
Sound(p, f, b) == \A z \in X : ValidEntry(p, f, z, b[z])
Complete(p, f, b) == \A z \in X : RefB(p, f)[z] # <<Empty, Empty>> => b[z] # <<Empty, Empty>>

(* ------------------------------ the passes ------------------------------ *)
Init == /\ P \in PChoices /\ F \in FChoices
        /\ volA = [i \in X |-> Empty] /\ durA = volA
        /\ volB = EmptyB /\ durB = volB
        /\ ckA = 0 /\ dckA = 0 /\ ckB = 0 /\ dckB = 0 /\ aExists = TRUE
        /\ pc = "closed" /\ win = <<0, 0>> /\ stuck = FALSE

\* open: read the durable checkpoints (nothing volatile survives a restart)
Open == /\ pc = "closed"
        /\ volA' = durA /\ volB' = durB /\ ckA' = dckA /\ ckB' = dckB
        /\ pc' = IF dckB >= Half THEN "done" ELSE IF dckA >= N THEN "B" ELSE "A"
        /\ UNCHANGED <<P, F, durA, durB, dckA, dckB, aExists, win, stuck>>

\* pass A: choose a window [s, e) from the memory available now
AWindowSizes(s) == IF CkptRule = "startPlus1"
                   THEN {w \in 0..(N - s) : w % 2 = 0 /\ (w > 0 \/ N - s = 1)}   \* even sizes; a 1-record rest gives size 0
                   ELSE {w \in 1..(N - s) : TRUE}
AStart == /\ pc = "A" /\ ckA < N
          /\ \E w \in AWindowSizes(ckA) :
                /\ win' = <<ckA, ckA + w>>
                /\ stuck' = (w = 0)
                /\ pc' = IF w = 0 THEN "A" ELSE "Awritten"
                \* the scan computes the window's slots; the write may spill one zero record past an odd rest
                /\ volA' = [i \in X |-> IF ckA <= i /\ i < ckA + w THEN ASlot(P, i) ELSE volA[i]]
          /\ UNCHANGED <<P, F, durA, volB, durB, ckA, dckA, ckB, dckB, aExists>>
ASync1 == pc = "Awritten" /\ durA' = volA /\ pc' = "Asynced"
          /\ UNCHANGED <<P, F, volA, volB, durB, ckA, dckA, ckB, dckB, aExists, win, stuck>>
ACkpt  == /\ pc = "Asynced"
          /\ ckA' = IF CkptRule = "end" THEN win[2] ELSE win[1] + 1
          /\ pc' = "Ackpt"
          /\ UNCHANGED <<P, F, volA, durA, volB, durB, dckA, ckB, dckB, aExists, win, stuck>>
\* second sync; the loop continues from the window's end (not from the recorded checkpoint)
ASync2 == /\ pc = "Ackpt" /\ dckA' = ckA
          /\ IF win[2] >= N THEN ckA' = N /\ pc' = "Afinal" ELSE ckA' = win[2] /\ pc' = "Aloop"
          /\ UNCHANGED <<P, F, volA, durA, volB, durB, ckB, dckB, aExists, win, stuck>>
\* next window of the same run starts at the previous end
ALoop  == /\ pc = "Aloop"
          /\ \E w \in AWindowSizes(ckA) :
                /\ win' = <<ckA, ckA + w>> /\ stuck' = (w = 0)
                /\ pc' = IF w = 0 THEN "Aloop" ELSE "Awritten"
                /\ volA' = [i \in X |-> IF ckA <= i /\ i < ckA + w THEN ASlot(P, i) ELSE volA[i]]
          /\ UNCHANGED <<P, F, durA, volB, durB, ckA, dckA, ckB, dckB, aExists>>
AFinal == pc = "Afinal" /\ dckA' = N /\ pc' = "B"
          /\ UNCHANGED <<P, F, volA, durA, volB, durB, ckA, ckB, dckB, aExists, win, stuck>>

\* pass B: window [s, e) in units of y (two slots z each); reads table A as it is in the file
BSlots(s, e) == {z \in X : 2 * s <= z /\ z < 2 * e}
BStart(from) == /\ pc = from /\ ckB < Half
                /\ \E w \in 1..(Half - ckB) :
                      /\ win' = <<ckB, ckB + w>>
                      /\ LET full == BFrom(volA, F, 0, EmptyB) IN
                         volB' = [z \in X |-> IF z \in BSlots(ckB, ckB + w) THEN full[z] ELSE volB[z]]
                      /\ pc' = "Bwritten"
                /\ UNCHANGED <<P, F, volA, durA, durB, ckA, dckA, ckB, dckB, aExists, stuck>>
BSync1 == pc = "Bwritten" /\ durB' = volB /\ pc' = "Bsynced"
          /\ UNCHANGED <<P, F, volA, durA, volB, ckA, dckA, ckB, dckB, aExists, win, stuck>>
BCkpt  == /\ pc = "Bsynced"
          /\ ckB' = IF CkptRule = "end" THEN win[2] ELSE win[1] + 1
          /\ pc' = "Bckpt"
          /\ UNCHANGED <<P, F, volA, durA, volB, durB, ckA, dckA, dckB, aExists, win, stuck>>
BSync2 == /\ pc = "Bckpt" /\ dckB' = ckB
          /\ IF win[2] >= Half THEN ckB' = Half /\ pc' = "Bfinal" ELSE ckB' = win[2] /\ pc' = "Bloop"
          /\ UNCHANGED <<P, F, volA, durA, volB, durB, ckA, dckA, aExists, win, stuck>>
BFinal == pc = "Bfinal" /\ dckB' = Half /\ pc' = "rmA"
          /\ UNCHANGED <<P, F, volA, durA, volB, durB, ckA, dckA, ckB, aExists, win, stuck>>
RemoveA == pc = "rmA" /\ aExists' = FALSE /\ pc' = "done"
          /\ UNCHANGED <<P, F, volA, durA, volB, durB, ckA, dckA, ckB, dckB, win, stuck>>

\* graceful stop: honoured between windows (the scans of small tables poll the stop flag only at their start)
Stop == pc \in {"A", "Aloop", "B", "Bloop"} /\ pc' = "closed"
        /\ UNCHANGED <<P, F, volA, durA, volB, durB, ckA, dckA, ckB, dckB, aExists, win, stuck>>

\* the process dies: of the unsynced writes any subset reaches the disk (per slot; the 8-byte checkpoint whole or not)
Crash == /\ pc \notin {"closed", "done"}
         /\ \E sa \in SUBSET {i \in X : volA[i] # durA[i]}, sb \in SUBSET {z \in X : volB[z] # durB[z]},
               ka \in {dckA, ckA}, kb \in {dckB, ckB} :
               /\ durA' = [i \in X |-> IF i \in sa THEN volA[i] ELSE durA[i]]
               /\ durB' = [z \in X |-> IF z \in sb THEN volB[z] ELSE durB[z]]
               /\ dckA' = ka /\ dckB' = kb
         /\ pc' = "closed"
         /\ UNCHANGED <<P, F, volA, volB, ckA, ckB, aExists, win, stuck>>

\* ... and when a window has been computed and is about to be written (the write polls the stop flag before every block;
\* a window of a small table is one block): nothing of the window reaches the file, no checkpoint is recorded
StopInWrite == pc \in {"Awritten", "Bwritten"} /\ pc' = "closed"
               /\ volA' = (IF pc = "Awritten" THEN [i \in X |-> IF win[1] <= i /\ i < win[2] THEN durA[i] ELSE volA[i]] ELSE volA)
               /\ volB' = (IF pc = "Bwritten" THEN [z \in X |-> IF z \in BSlots(win[1], win[2]) THEN durB[z] ELSE volB[z]] ELSE volB)
               /\ UNCHANGED <<P, F, durA, durB, ckA, dckA, ckB, dckB, aExists, win, stuck>>

Next == Open \/ AStart \/ ASync1 \/ ACkpt \/ ASync2 \/ ALoop \/ AFinal
        \/ BStart("B") \/ BStart("Bloop") \/ BSync1 \/ BCkpt \/ BSync2 \/ BFinal \/ RemoveA
        \/ Stop \/ StopInWrite \/ Crash
Spec == Init /\ [][Next]_vars

(* ------------------------------ properties ------------------------------ *)
\* C10 / C07: a space that reports itself plotted holds exactly the table of an uninterrupted run, sound and complete
PlottedIsComplete == dckB >= Half => durB = RefB(P, F) /\ Sound(P, F, durB) /\ Complete(P, F, durB)
DoneIsRef == pc = "done" => volB = RefB(P, F)
\* C10: recorded progress never runs ahead of data written durably: every slot a durable checkpoint declares final
\* is durable with its final value
FinalA(c) == {i \in X : i < c}
FinalB(c) == {z \in X : z < 2 * c}
DurableNotAhead == /\ \A i \in FinalA(IF CkptRule = "end" THEN dckA ELSE 0) : durA[i] = ASlot(P, i)
                   /\ (dckA >= N => durA = RefA(P))
                   /\ (dckB >= Half => durB = RefB(P, F))
\* table A is removed only after B's final checkpoint is durable
AKeptUntilDone == ~aExists => dckB >= Half
\* C10: a resumed pass terminates: no window of size zero
NeverStuck == ~stuck
=============================================================================
