CONSTANTS
  N = 4
  CkptRule = "startPlus1"
  PChoices <- AllP
  FChoices <- SomeF
SPECIFICATION Spec
INVARIANTS PlottedIsComplete DoneIsRef DurableNotAhead AKeptUntilDone NeverStuck
CHECK_DEADLOCK FALSE
