CONSTANTS
  Stoppers = {"stopws", "monitor", "close"}
  StartRule = "together"
  CloseRule = "first"
SPECIFICATION Spec
INVARIANT NoPanic
PROPERTY AllReturn
CHECK_DEADLOCK FALSE
