CONSTANTS
  Stoppers = {"stopws", "monitor", "close"}
  CloseRule = "first"
SPECIFICATION Spec
INVARIANT NoPanic
PROPERTY AllReturn
CHECK_DEADLOCK FALSE
