SPECIFICATION Spec
INVARIANTS Emit AddsUp
CHECK_DEADLOCK FALSE
