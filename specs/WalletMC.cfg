CONSTANTS
  Wallets = {"w1"}
  Seeds = {"s1", "s2"}
  Pass = {"p1", "p2", "q1", "bad"}
  BadPass <- MCBad
  Remarks = {"", "r1"}
  MaxIdx = 1
  FileIds = {"f1"}
  TamperFields = {"remark"}
  WithObservers = FALSE
SPECIFICATION Spec
INVARIANTS TypeOK OnePass LockedWhenDown
PROPERTIES ImportRestores Monotone RestartKeeps
CHECK_DEADLOCK FALSE
