CONSTANTS
  Names = {}
  Keys = {}
  ScanPrefixes = {}
  Vals = {}
  BadChars <- TBad
  MaxDepth = 3
INIT TInit
NEXT TNext
CONSTRAINT Mark
POSTCONDITION Done
CHECK_DEADLOCK FALSE
