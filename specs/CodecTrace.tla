------------------------------- MODULE CodecTrace -------------------------------
(***************************************************************************)
(* Trace validation for Codec.tla: every recorded Decode event (abstract   *)
(* frame + what the real DecodeMessage did with a concretisation of it)    *)
(* must show the specification's outcome; a decoded message must carry the *)
(* values that were put in and survive re-encoding unchanged.              *)
(***************************************************************************)
EXTENDS Codec, Json
Traces == ndJsonDeserialize("traces.ndjson")
VARIABLES tr, l
ASSUME TLCSet(1, {}) /\ TLCSet(2, [i \in DOMAIN Traces |-> 0])
Step(e) == /\ e.a = "Decode"
           /\ e.res = Outcome(e.frame)                       \* total: msg or err, as the case analysis says
           /\ (e.res = "msg" => e.rt = TRUE /\ e.fieldsok = TRUE)   \* lossless
TInit == frame = NoFrame /\ outcome = "none" /\ tr \in DOMAIN Traces /\ l = 1
TNext == /\ l <= Len(Traces[tr].ev) /\ Step(Traces[tr].ev[l])
         /\ l' = l + 1 /\ UNCHANGED <<tr, frame, outcome>>
Mark == /\ (IF l - 1 > TLCGet(2)[tr] THEN TLCSet(2, [TLCGet(2) EXCEPT ![tr] = l - 1]) ELSE TRUE)
        /\ (IF l = Len(Traces[tr].ev) + 1 THEN TLCSet(1, TLCGet(1) \cup {tr}) ELSE TRUE)
Done == PrintT(<<"ACCEPTED", ToJson(TLCGet(1))>>) /\ PrintT(<<"HW", ToJson(TLCGet(2))>>)
=============================================================================
