CONSTANTS
  Spaces = {"w1", "w2"}
  Order <- MCOrder2
  ChanCap = 2
SPECIFICATION ASpec
CONSTRAINT QueueSmall
INVARIANTS TwoParts MinerOverKeeper TypeOK AtMostOnePlotting PlottingIsCurrent PendingKnown
PROPERTIES StopAllQuiets MineStartsMiner MinerOffOnlyByStop LockRefusedWhileMining KeeperStartsUnlocked
CHECK_DEADLOCK FALSE
