------------------------------- MODULE KeeperConcGen -------------------------------
(* Generator of concurrent keeper histories (C13, "for all concurrent callers"): 3-4 callers, each with a list of
   requests and queries; the plotter runs freely.  The last record of a behaviour is a sentinel. *)
EXTENDS Integers, Sequences, TLC, Json
CONSTANT GenLen
VARIABLE hist
RS(X) == RandomElement(IF Len(hist) >= 0 THEN X ELSE {})
Coin(n) == RS(1..n) = 1
W == {"w1", "w2", "w3", "w4", "w5", "w6"}
Acts == {"Plot", "Mine", "Stop", "Remove", "Delete"}
\* removals and deletions are rarer so that spaces last for a while
Act == IF Coin(4) THEN RS({"Remove", "Delete"}) ELSE RS({"Plot", "Mine", "Mine", "Stop"})
Flags == RS({<<"registered">>, <<"plotting">>, <<"ready">>, <<"mining">>, <<"registered", "ready">>, <<"plotting", "mining">>,
             <<"registered", "plotting", "ready", "mining">>, <<"ready", "mining">>})
OneOp == CASE Coin(12) -> [a |-> RS({"StartK", "StopK"})]        \* starting / stopping the keeper while the others go on
           [] Coin(3) -> [a |-> "Act", w |-> RS(W), act |-> Act]
           [] Coin(3) -> [a |-> "Bulk", flags |-> Flags, act |-> Act]
           [] Coin(2) -> [a |-> "Query", flags |-> Flags]
           [] Coin(3) -> [a |-> "Proofs"]
           \* a streaming proof query whose context ends after ms milliseconds (writer and closer of the stream race)
           [] Coin(3) -> [a |-> "Reader", flags |-> Flags, ms |-> RS({0, 1, 3, 50})]
           [] OTHER -> [a |-> "Act", w |-> RS(W), act |-> RS(Acts)]
ThreadOps == LET n == RS(8..20) IN [i \in 1..n |-> OneOp]
GInit == hist = <<>>
GNext == \E k \in 1..2 : hist' = Append(hist, [threads |-> [i \in 1..RS(3..4) |-> ThreadOps]])
Emit == Len(hist) = GenLen => PrintT(<<"BEHAVIOUR", ToJson(hist)>>)
=============================================================================
