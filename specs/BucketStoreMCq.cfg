CONSTANTS
  Names <- MCNames
  Keys <- MCKeys
  ScanPrefixes <- MCScanPrefixes
  Vals <- MCVals
  BadChars <- MCBad
  MaxDepth = 2
  MaxKv = 1
  MaxB = 3
SPECIFICATION Spec
CONSTRAINT Bound
INVARIANT WellFormed
PROPERTIES Isolation Atomic FreshTx
CHECK_DEADLOCK FALSE
