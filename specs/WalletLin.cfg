CONSTANTS
  Wallets = {"w1", "w2"}
  Seeds = {"s1", "s2", "s3"}
  Pass = {"p1", "p2", "p3", "q1", "q2", "bad"}
  BadPass <- LBad
  Remarks = {"", "r1", "r2"}
  MaxIdx = 40
  FileIds = {"f1"}
  TamperFields = {"remark"}
  WithObservers = TRUE
INIT LInit2
NEXT LNext
CONSTRAINT Mark
POSTCONDITION Done
CHECK_DEADLOCK FALSE
