CONSTANTS
  Proofs = {"a", "b"}
  W = 2
  MaxNow = 4
  AllowAhead = 1
  RH = {1}
  RS0 = {0, 1}
SPECIFICATION FairSpec
PROPERTIES SearchEnds SolvedIsSubmitted
CHECK_DEADLOCK FALSE
