------------------------------- MODULE KeeperIndexTrace -------------------------------
(* Trace validation for KeeperIndex.tla: a recorded start-up over a materialised directory content. *)
EXTENDS KeeperIndex, Json, SequencesExt
Traces == ndJsonDeserialize("traces.ndjson")
VARIABLES tr, l
ASSUME TLCSet(1, {}) /\ TLCSet(2, [i \in DOMAIN Traces |-> 0])
Step(e) == LET fs == ToSet(e.files)
               idx == {[key |-> x.key, bl |-> x.bl] : x \in ToSet(e.indexed)} IN
  /\ e.a = "Index" /\ e.res = "ok"
  /\ Cardinality(idx) = Len(e.indexed)                           \* exactly once
  /\ idx = ExpectedIndex(fs)                                     \* every good file, nothing else
  /\ \A x \in ToSet(e.indexed) : StateOK(fs, [key |-> x.key, bl |-> x.bl], x.state) /\ x.ordinal = OrdOf(x.key)
  /\ \A x \in ToSet(e.served) : MayServe(fs, [key |-> x.key, bl |-> x.bl])     \* proofs only from good plotted files
  /\ e.servedvalid = TRUE                                        \* and what is served verifies for that key
  /\ e.lost = <<>>                                               \* start-up deletes nothing
  /\ e.altered = <<>>
  \* then every indexed space is deleted: nothing named after a deleted space is left, nothing else is touched, and a
  \* space that is neither plotting nor mining is not refused
  /\ e.undeleted = <<>> /\ e.collateral = <<>> /\ e.refused = <<>>
TInit == content = {} /\ tr \in DOMAIN Traces /\ l = 1
TNext == /\ l <= Len(Traces[tr].ev) /\ Step(Traces[tr].ev[l])
         /\ l' = l + 1 /\ UNCHANGED <<tr, content>>
Mark == /\ (IF l - 1 > TLCGet(2)[tr] THEN TLCSet(2, [TLCGet(2) EXCEPT ![tr] = l - 1]) ELSE TRUE)
        /\ (IF l = Len(Traces[tr].ev) + 1 THEN TLCSet(1, TLCGet(1) \cup {tr}) ELSE TRUE)
Done == PrintT(<<"ACCEPTED", ToJson(TLCGet(1))>>) /\ PrintT(<<"HW", ToJson(TLCGet(2))>>)
=============================================================================
