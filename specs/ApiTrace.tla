------------------------------- MODULE ApiTrace -------------------------------
(***************************************************************************)
(* Trace validation for ApiControl.tla: scenarios recorded by keeperdrv    *)
(* with the real gRPC handlers (api.Server over the real capacity keeper   *)
(* and a scripted miner), the plotter goroutine under gates as in          *)
(* KeeperTrace.  Event Api(call, w): the handler's answer, then the same   *)
(* projections as KeeperTrace plus the states as GetCapacitySpaces reports *)
(* them.  The keeper part of a rejected step speaks for C09; whether the   *)
(* miner is started is outside the listed properties: a difference there   *)
(* is recorded as a note (TLC register 4), it does not reject the trace.   *)
(***************************************************************************)
EXTENDS KeeperTrace, ApiControl
ASSUME TLCSet(4, {})
Note(tag) == TLCSet(4, TLCGet(4) \cup {<<tr, tag>>})

\* What the handler did to the keeper's running state is taken from what was observed (the plotter goroutine arrived at
\* its first gate: started; it ran to its exit: stopped); where that differs from ApiControl.tla a note is recorded -
\* when a handler starts or stops the keeper or the miner is not part of a listed property.  The keeper action composed
\* with it, its answer and every projection must match exactly.
Started(e) == "sgate" \in DOMAIN e
Stopped(e) == "passed" \in DOMAIN e
WOf(e) == IF "w" \in DOMAIN e THEN e.w ELSE "w1"
\* the wallet handlers: the answer is the handler's own decision on what it saw (locked, mining) and is part of the trace;
\* the lock itself is followed as observed
WalletStep(e) ==
  LET h == IF e.call = "Lock" THEN HLock(Mn, Lk) ELSE HUnlock(Lk, e.good) IN
  /\ K' = K /\ Mn' = e.miner /\ Lk' = e.locked
  /\ (IF e.res = h.res /\ e.locked = h.l THEN TRUE
      ELSE Note("wallet-" \o e.call \o "-" \o e.res \o "-" \o (IF e.locked THEN "locked" ELSE "unlocked") \o "-unlike-ApiControl"))
ApiStep(e) ==
  LET w == WOf(e)
      k0 == IF Started(e) THEN StartK(K) ELSE IF Stopped(e) THEN StopK(K) ELSE K
      known == w \in Spaces
      h == IF known THEN ActPart(e.call, k0, w) ELSE [k |-> k0, res |-> "notfound"]
      mexp == IF known THEN H(e.call, K, Mn, w).m ELSE (IF e.call = "MineOne" THEN MinerStart(K, Mn).m ELSE Mn)
  IN
  /\ (known => CanCall(e.call, K, w))
  /\ (Started(e) => ~K.run /\ e.sgate = "start") /\ (Stopped(e) => K.run /\ ~Started(e))
  /\ (IF k0.run = Pre(e.call, K).run THEN TRUE ELSE Note("keeper-" \o (IF k0.run THEN "running" ELSE "stopped") \o "-after-" \o e.call \o "-unlike-ApiControl"))
  /\ e.res = h.res
  /\ (IF Stopped(e) THEN TRUE ELSE (("gate" \in DOMAIN e) <=> EndsPlot(K, h.k)) /\ ("gate" \in DOMAIN e => e.gate = "plotret"))
  /\ \/ K' = h.k
     \* stopping the keeper: requests still in the channel are kept, or received and dropped with the queue (as in
     \* KeeperTrace's StopKeeper)
     \/ Stopped(e) /\ K' = [h.k EXCEPT !.chan = <<>>]
     \* F-C09a through the handlers: the Stop handlers leave standing requests in the channel
     \/ /\ e.call \in {"StopAll", "StopOne"} /\ h.k.chan # K.chan
        /\ K' = KeepsChan(K, h.k) /\ Flag("C09-withdraw-keeps-channel-request")
  /\ Mn' = e.miner /\ Lk' = e.locked
  /\ (IF e.locked = Lk THEN TRUE ELSE Note("wallet-lock-changed-by-" \o e.call))
  /\ (IF e.miner = mexp THEN TRUE ELSE Note("miner-" \o (IF e.miner THEN "started" ELSE "stopped") \o "-after-" \o e.call \o "-unlike-ApiControl"))
AProj(e, k, m) ==
  /\ "apierr" \notin DOMAIN e
  /\ DOMAIN e.apist = KnownSet(k) /\ \A w \in KnownSet(k) : e.apist[w] = k.st[w]      \* C09: the API reports the same states
AStep(e) == IF e.a = "Api" THEN (IF e.call \in {"Lock", "Unlock"} THEN WalletStep(e) ELSE ApiStep(e)) ELSE Step(e) /\ UNCHANGED <<Mn, Lk>>

ATInit == TInit /\ Mn = FALSE /\ Lk = TRUE
ATNext == /\ l <= Len(Traces[tr].ev)
          /\ ~Wedged(Traces[tr].ev[l])
          /\ AStep(Traces[tr].ev[l]) /\ ProjOK(Traces[tr].ev[l], K') /\ AProj(Traces[tr].ev[l], K', Mn')
          /\ l' = l + 1 /\ UNCHANGED tr
ADone == Done /\ PrintT(<<"NOTES", ToJson(TLCGet(4))>>)
=============================================================================
