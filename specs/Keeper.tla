------------------------------- MODULE Keeper -------------------------------
(***************************************************************************)
(* The space keeper's workspace state machine and its plotter goroutine    *)
(* (poc/engine/spacekeeper/capacity: capacity.go, space_plotter.go; the    *)
(* table in poc/engine/engine.go).  Serves C09, C13 and the action part of *)
(* C11.                                                                    *)
(*                                                                         *)
(* Structured like the code.  The state K is a record:                     *)
(*   st[w]      registered / plotting / ready / mining / gone (deleted)    *)
(*   using[w]   w is in the configured list (queries by flags see it)      *)
(*   chan       requests accepted for registered spaces, not yet seen by   *)
(*              the plotter (the code's buffered channel), <<w, wouldMine>>*)
(*   queue      requests the plotter has taken over (the code's priority   *)
(*              queue; a bag here: which item is popped first is not part  *)
(*              of any property)                                           *)
(*   plt        the plotter: pc, the popped item (w, m), how the plot ended*)
(*   run        keeper started                                             *)
(*   files[w]   the space's plot files exist                               *)
(* One operation per public call and one per plotter step (the points      *)
(* where the code takes / releases the state lock, receives from the       *)
(* channel, calls Plot()).  Operations are functions K -> K so that bulk   *)
(* calls (ActOnWorkSpaces) are the composition the code performs.          *)
(*                                                                         *)
(* The documented contract (engine.go 171-212 and the comments above       *)
(* PlotWS .. DeleteWS) is what the operations implement; in particular     *)
(* Stop / Remove / Delete of a space withdraw every request for it, from   *)
(* the channel as well as from the queue ("a stopped space is not plotted  *)
(* or mined until asked again").                                           *)
(***************************************************************************)
EXTENDS Naturals, Sequences, FiniteSets, Bags, TLC

CONSTANTS Spaces,      \* workspaces, e.g. {"w1","w2","w3"}
          Order,       \* the configured list order: a sequence of all spaces
          ChanCap

VARIABLE K
vars == <<K>>

States == {"registered", "plotting", "ready", "mining"}
Idle == [pc |-> "idle", w |-> "-", m |-> FALSE, out |-> "-"]
Acts == {"Plot", "Mine", "Stop", "Remove", "Delete"}

Known(k, w) == k.st[w] # "gone" /\ k.using[w]       \* what the API calls an existing workspace
WithoutQ(q, w) == [i \in {j \in DOMAIN q : j[1] # w} |-> q[i]]
WithoutC(c, w) == SelectSeq(c, LAMBDA i : i[1] # w)
Current(k, w) == k.plt.pc \in {"popped", "plotting", "plotret"} /\ k.plt.w = w /\ k.st[w] = "plotting"
Still(k, w) == k.st[w] \in {"registered", "ready"}

Init == \E s0 \in [Spaces -> {"registered", "ready"}] :
           K = [st |-> s0, using |-> [w \in Spaces |-> TRUE], chan |-> <<>>, queue |-> EmptyBag,
                plt |-> Idle, run |-> FALSE, files |-> [w \in Spaces |-> TRUE]]

(* ------------------------------ API calls ------------------------------ *)
\* result of a single-space call
\* a Plot / Mine on a registered space puts one more request into the channel; a full channel refuses it (with the
\* pinned code the caller waited for room while holding the state lock: F-C13a, repaired)
Full(k, w, a) == a \in {"Plot", "Mine"} /\ Known(k, w) /\ k.st[w] = "registered" /\ Len(k.chan) >= ChanCap
Res(k, w, a) ==
  IF ~Known(k, w) THEN "err"
  ELSE IF a \in {"Remove", "Delete"} /\ ~Still(k, w) THEN "err"
  ELSE IF Full(k, w, a) THEN "err"
  ELSE "ok"

\* (no call blocks any more; kept for the modules that name it)
Blocks(k, w, a) == FALSE

Purge(k, w) == [k EXCEPT !.chan = WithoutC(@, w), !.queue = WithoutQ(@, w)]

Act(k, w, a) ==
  IF ~Known(k, w) \/ Full(k, w, a) THEN k
  ELSE CASE a = "Plot" ->
              (CASE k.st[w] = "registered" -> [k EXCEPT !.chan = Append(@, <<w, FALSE>>)]
                 [] Current(k, w) -> [k EXCEPT !.plt.m = FALSE]
                 [] OTHER -> k)
         [] a = "Mine" ->
              (CASE k.st[w] = "registered" -> [k EXCEPT !.chan = Append(@, <<w, TRUE>>)]
                 [] Current(k, w) -> [k EXCEPT !.plt.m = TRUE]
                 [] k.st[w] = "ready" -> [k EXCEPT !.st[w] = "mining"]
                 [] OTHER -> k)
         [] a = "Stop" ->
              \* every request for w is withdrawn; a running plot of w has ended (aborted, unless it had already
              \* completed) when the call returns; a mining space goes back to ready
              (LET p == Purge(k, w) IN
               CASE Current(k, w) -> [p EXCEPT !.plt.m = FALSE,
                                               !.plt.pc = IF k.plt.pc = "plotting" THEN "plotret" ELSE @,
                                               !.plt.out = IF k.plt.pc = "plotting" THEN "aborted" ELSE @]
                 [] k.st[w] = "mining" -> [p EXCEPT !.st[w] = "ready"]
                 [] OTHER -> p)
         [] a = "Remove" ->
              (LET p == Purge(k, w) IN IF Still(k, w) THEN [p EXCEPT !.using[w] = FALSE] ELSE p)
         [] a = "Delete" ->
              (LET p == Purge(k, w) IN
               IF Still(k, w) THEN [p EXCEPT !.using[w] = FALSE, !.st[w] = "gone", !.files[w] = FALSE] ELSE p)

\* ActOnWorkSpaces(flags, a): the spaces of the configured list whose state is in flags, listed once, then the
\* single call on each in list order
RECURSIVE Fold(_, _, _)
Fold(k, ws, a) == IF ws = <<>> THEN k ELSE Fold(Act(k, Head(ws), a), Tail(ws), a)
Matching(k, flags) == SelectSeq(Order, LAMBDA w : Known(k, w) /\ k.st[w] \in flags)
Bulk(k, flags, a) == Fold(k, Matching(k, flags), a)
\* the per-space results a bulk call reports
RECURSIVE FoldRes(_, _, _)
FoldRes(k, ws, a) == IF ws = <<>> THEN <<>> ELSE <<<<Head(ws), Res(k, Head(ws), a)>>>> \o FoldRes(Act(k, Head(ws), a), Tail(ws), a)
BulkRes(k, flags, a) == FoldRes(k, Matching(k, flags), a)

StartK(k) == [k EXCEPT !.run = TRUE]
\* Stopping the keeper: a running plot is stopped, the plotter finishes its current item and exits; requests the
\* plotter had taken over are dropped
StopK(k) ==
  LET q == [k EXCEPT !.run = FALSE, !.queue = EmptyBag] IN
  IF k.plt.pc = "idle" THEN q
  ELSE LET w == k.plt.w
           done == k.plt.pc = "plotret" /\ k.plt.out = "complete"
       IN [q EXCEPT !.plt = Idle,
                    !.st[w] = IF k.st[w] = "plotting"
                              THEN (IF done THEN (IF k.plt.m THEN "mining" ELSE "ready") ELSE "registered")
                              ELSE @]

(* ------------------------------ plotter steps ------------------------------ *)
ChanBag(c) == [i \in {c[j] : j \in DOMAIN c} |-> Cardinality({j \in DOMAIN c : c[j] = i})]
CanRecv(k) == k.run /\ k.plt.pc = "idle" /\ BagCardinality(k.queue) = 0 /\ k.chan # <<>>
Recv(k)    == [k EXCEPT !.queue = @ (+) ChanBag(k.chan), !.chan = <<>>]
CanPop(k, w, m) == k.run /\ k.plt.pc = "idle" /\ BagIn(<<w, m>>, k.queue)
Pop(k, w, m)    == [k EXCEPT !.queue = @ (-) SetToBag({<<w, m>>}), !.plt = [pc |-> "popped", w |-> w, m |-> m, out |-> "-"]]
\* step 1 (under the state lock): registered -> plotting and Plot() starts; a ready space asked to mine -> mining;
\* anything else: the item is dropped
CanStep1(k) == k.plt.pc = "popped"
Step1(k) == LET w == k.plt.w IN
            CASE k.st[w] = "registered" -> [k EXCEPT !.st[w] = "plotting", !.plt.pc = "plotting"]
              [] k.st[w] = "ready" /\ k.plt.m -> [k EXCEPT !.st[w] = "mining", !.plt = Idle]
              [] OTHER -> [k EXCEPT !.plt = Idle]
\* Plot() returns: the table is complete, or the plot ended early
CanPlotEnd(k) == k.plt.pc = "plotting"
PlotEnd(k, out) == [k EXCEPT !.plt.pc = "plotret", !.plt.out = out]
\* step 3 (under the state lock)
CanStep3(k) == k.plt.pc = "plotret"
Step3(k) == LET w == k.plt.w IN
            [k EXCEPT !.st[w] = IF k.plt.out = "complete" THEN (IF k.plt.m THEN "mining" ELSE "ready") ELSE "registered",
                      !.plt = Idle]

Flagsets == SUBSET States \ {{}}

Next == \/ \E w \in Spaces, a \in Acts : ~Blocks(K, w, a) /\ K' = Act(K, w, a)
        \/ \E f \in Flagsets, a \in Acts : K' = Bulk(K, f, a)
        \/ ~K.run /\ K' = StartK(K)
        \/ K.run /\ K.plt.pc # "popped" /\ (K' = StopK(K) \/ K' = [StopK(K) EXCEPT !.chan = <<>>])
        \/ CanRecv(K) /\ K' = Recv(K)
        \/ \E w \in Spaces, m \in BOOLEAN : CanPop(K, w, m) /\ K' = Pop(K, w, m)
        \/ CanStep1(K) /\ K' = Step1(K)
        \/ \E o \in {"complete", "aborted"} : CanPlotEnd(K) /\ K' = PlotEnd(K, o)
        \/ CanStep3(K) /\ K' = Step3(K)

Spec == Init /\ [][Next]_vars

(* ------------------------------ properties (C09, C11) ------------------------------ *)
TypeOK == /\ K.st \in [Spaces -> States \cup {"gone"}] /\ K.using \in [Spaces -> BOOLEAN]
          /\ K.plt.pc \in {"idle", "popped", "plotting", "plotret"} /\ Len(K.chan) <= ChanCap
AtMostOnePlotting == Cardinality({w \in Spaces : K.st[w] = "plotting"}) <= 1
PlottingIsCurrent == \A w \in Spaces : K.st[w] = "plotting" => Current(K, w)
PendingKnown == \A i \in BagToSet(K.queue) \cup {K.chan[j] : j \in DOMAIN K.chan} : Known(K, i[1])
\* only documented transitions
Documented == [][\A w \in Spaces : K'.st[w] # K.st[w] =>
     \/ K.st[w] = "registered" /\ K'.st[w] \in {"plotting", "gone"}
     \/ K.st[w] = "plotting"   /\ K'.st[w] \in {"registered", "ready", "mining"}
     \/ K.st[w] = "ready"      /\ K'.st[w] \in {"mining", "gone"}
     \/ K.st[w] = "mining"     /\ K'.st[w] = "ready"]_vars
\* a space starts plotting only from a request that is still standing (popped item)
AskedFor == [][\A w \in Spaces : K'.st[w] = "plotting" /\ K.st[w] # "plotting" => K.plt.pc = "popped" /\ K.plt.w = w]_vars
\* after Stop / Remove / Delete of w no request for w stands: w is not plotted or mined until asked again
Withdrawn == [][\A w \in Spaces, a \in {"Stop", "Remove", "Delete"} : (Known(K, w) /\ K' = Act(K, w, a)) =>
                   ~\E i \in BagToSet(K'.queue) \cup {K'.chan[j] : j \in DOMAIN K'.chan} : i[1] = w]_vars
\* files disappear only by Delete of that space, refused while busy; Remove erases nothing
OnlyDeleteDeletes == [][\A w \in Spaces : K.files[w] /\ ~K'.files[w] => K.st[w] \in {"registered", "ready"} /\ K'.st[w] = "gone"]_vars
=============================================================================
