------------------------------- MODULE WalletGen -------------------------------
(***************************************************************************)
(* Behaviour generator for Wallet.tla: the same Apply, a history variable, *)
(* and an environment biased towards calls that do something (mostly the   *)
(* right passphrase, mostly existing keystores) while still producing      *)
(* every kind of wrong argument.  Focus selects the family of behaviours:  *)
(*   "core"   all calls, no faults            (C02 C03 C04 C05 C06)        *)
(*   "file"   export / tamper / import heavy, two wallets (C01)            *)
(*   "keys"   keys issued on both branches, then export / delete / import  *)
(*            and unlock: what was issued must sign wherever it lands (C05)*)
(*   "fault"  every mutating call may carry a fault (C12)                  *)
(* Used with tlc -simulate (GenLen actions per behaviour).                 *)
(***************************************************************************)
EXTENDS Wallet, Json

CONSTANTS GenLen, Focus
VARIABLE hist

GBad == {"bad"}
\* RandomElement must see a state-dependent argument, or TLC evaluates it once as a constant
RS(X) == RandomElement(IF Len(hist) >= 0 THEN X ELSE {})
Coin(n) == RS(1..n) = 1                       \* true once in n

Up    == {w \in Wallets : S.up[w]}
Down  == {w \in Wallets : ~S.up[w]}
PrivOf(w) == IF S.priv[w] = NoPass THEN RS({p \in Pass : WF(p) /\ p # S.pub[w]}) ELSE S.priv[w]
Noise == IF Focus = "file" THEN 8 ELSE 4
PickPriv(w) == IF Coin(Noise) THEN (IF Coin(2) THEN "bad" ELSE RS(Pass)) ELSE PrivOf(w)
PickPub(w)  == IF Coin(Noise + 1) THEN RS(Pass) ELSE S.pub[w]
FreshPass(w) == RS({p \in Pass : WF(p) /\ p # S.pub[w] /\ p # S.priv[w]})
PickSeed(w) == IF HasKs(S, w) /\ ~Coin(5) THEN RS(Present(S, w)) ELSE RS(Seeds)
\* seeds of keystores that existed before and are gone now (deleted): creating them again must start from scratch
Former(w) == {hist[i].s : i \in {j \in DOMAIN hist : hist[j].t = "NewKs" /\ hist[j].w = w}} \ Present(S, w)
FreeSeed(w) == IF Former(w) \cap Seeds # {} /\ Coin(2) THEN RS(Former(w) \cap Seeds)
               ELSE IF Seeds \ Present(S, w) # {} /\ ~Coin(5) THEN RS(Seeds \ Present(S, w)) ELSE RS(Seeds \cup {"badseed"})
UsedFiles == {f \in FileIds : S.files[f] # NoFile}
FreeFiles == FileIds \ UsedFiles
CleanFiles == {f \in UsedFiles : S.files[f].tamper = "none"}
Faults(op) == IF Focus = "fault" /\ CanFault(S, op) /\ ~Coin(3)
              THEN {RS({"failwrite", "failcommit", "crashbefore", "crashafter"})} ELSE {"none"}

\* calls that need a keystore are mostly made when there is one
Live(w) == HasKs(S, w) \/ Coin(40)

Do(op) == /\ Sensible(S, op)
          /\ \E fault \in Faults(op) :
                /\ S' = Apply(S, op, fault)
                /\ hist' = Append(hist, op @@ [fault |-> fault, k |-> RS(1..24), c |-> IF Coin(3) THEN 2 ELSE 1])

GInit == Init /\ hist = <<>>
\* focus "keys": the behaviour starts after a keystore has issued keys on both branches (locked, as a fresh keystore is) and
\* has been exported, with the second wallet open: what follows moves that keystore around (the prefix is replayed like
\* every other step)
KeysPrefix == <<[t |-> "Open", w |-> "w1", q |-> "p1"],
                [t |-> "NewKs", w |-> "w1", p |-> "q1", s |-> "s1", r |-> "r1"],
                [t |-> "NextAddr", w |-> "w1", s |-> "s1", b |-> 0, n |-> 2],
                [t |-> "NextAddr", w |-> "w1", s |-> "s1", b |-> 1, n |-> 2],
                [t |-> "GenKey", w |-> "w1", s |-> "s1"],
                [t |-> "Export", w |-> "w1", s |-> "s1", p |-> "q1", f |-> "f1"],
                [t |-> "Open", w |-> "w2", q |-> "p2"],
                \* the second wallet has a keystore of its own under another private passphrase: an import there is where
                \* "one private passphrase governs all keystores" is at stake
                [t |-> "NewKs", w |-> "w2", p |-> "q2", s |-> "s2", r |-> ""]>>
\* fault focus, second start: a wallet that already holds two keystores (the calls that span several keystores are where a
\* fault can leave a partial effect)
TwoKsPrefix == <<[t |-> "Open", w |-> "w1", q |-> "p1"],
                 [t |-> "NewKs", w |-> "w1", p |-> "q1", s |-> "s1", r |-> "r1"],
                 [t |-> "NewKs", w |-> "w1", p |-> "q1", s |-> "s2", r |-> ""],
                 [t |-> "GenKey", w |-> "w1", s |-> "s2"]>>
RECURSIVE ApplyAll(_, _)
ApplyAll(st, ops) == IF ops = <<>> THEN st ELSE ApplyAll(Apply(st, Head(ops), "none"), Tail(ops))
GInitTwoKs == /\ S = ApplyAll(InitS, TwoKsPrefix)
              /\ hist = [i \in 1..Len(TwoKsPrefix) |-> TwoKsPrefix[i] @@ [fault |-> "none", k |-> 1, c |-> 1]]
GInitKeys == /\ S = ApplyAll(InitS, KeysPrefix)
             /\ hist = [i \in 1..Len(KeysPrefix) |-> KeysPrefix[i] @@ [fault |-> "none", k |-> 1, c |-> 1]]

W(n) == 1..n      \* weight of an alternative

GNext ==
  \/ \E w \in Down : \E i \in W(IF Up = {} \/ Focus \in {"file", "keys"} THEN 12 ELSE 3) : Do([t |-> "Open", w |-> w, q |-> PickPub(w)])
  \/ \E w \in Up : Do([t |-> "Close", w |-> w])
  \* (fault focus: wallets with several keystores are where one call spans several keystores)
  \/ \E w \in Up : \E i \in W(IF ~HasKs(S, w) THEN 24 ELSE IF Focus = "fault" /\ Cardinality(Present(S, w)) = 1 THEN 8 ELSE 2) :
        Do([t |-> "NewKs", w |-> w, p |-> PickPriv(w), s |-> FreeSeed(w), r |-> RS(Remarks)])
  \/ \E w \in Up : \E i \in W(IF Focus = "keys" THEN 9 ELSE 3) : Live(w) /\ Do([t |-> "NextAddr", w |-> w, s |-> PickSeed(w), b |-> RS({0, 1}), n |-> RS(0..2)])
  \/ \E w \in Up : \E i \in W(IF Focus = "keys" THEN 5 ELSE 3) : Live(w) /\ Do([t |-> "GenKey", w |-> w, s |-> PickSeed(w)])
  \/ \E w \in Up : Live(w) /\ Do([t |-> "Remark", w |-> w, s |-> PickSeed(w), r |-> RS(Remarks)])
  \/ \E w \in Up : \E i \in W(IF Focus = "fault" /\ Cardinality(Present(S, w)) >= 2 THEN 6 ELSE 2) :
        Live(w) /\ Do([t |-> "ChangePriv", w |-> w, old |-> PickPriv(w), new |-> IF Coin(4) THEN RS(Pass) ELSE FreshPass(w)])
  \/ \E w \in Up : \E i \in W(2) : Do([t |-> "ChangePub", w |-> w, old |-> PickPub(w), new |-> IF Coin(4) THEN RS(Pass) ELSE FreshPass(w)])
  \/ \E w \in Up : \E i \in W(IF Focus \in {"file", "keys"} THEN 3 ELSE 1) : Live(w) /\ Do([t |-> "Delete", w |-> w, s |-> PickSeed(w), p |-> PickPriv(w)])
  \/ \E w \in Up : \E i \in W(IF Focus = "file" THEN 10 ELSE IF Focus = "keys" THEN 6 ELSE 1) : FreeFiles # {} /\ Live(w) /\
        Do([t |-> "Export", w |-> w, s |-> PickSeed(w), p |-> PickPriv(w), f |-> RS(FreeFiles)])
  \/ \E i \in W(IF Focus = "file" THEN 4 ELSE 0) : CleanFiles # {} /\
        Do([t |-> "Tamper", f |-> RS(CleanFiles), fld |-> RS(TamperFields)])
  \/ \E w \in Up : \E i \in W(IF Focus = "file" THEN 14 ELSE IF Focus = "keys" THEN 10 ELSE 1) : UsedFiles # {} /\
        LET f == RS(UsedFiles) IN
        Do([t |-> "Import", w |-> w, f |-> f,
            old |-> IF Coin(8) THEN RS(Pass) ELSE S.files[f].sealed,
            \* (a file sealed under another passphrase than the wallet's, imported without naming a new one, is the
            \* case where the wallet's single private passphrase is at stake)
            new |-> IF HasKs(S, w) /\ S.files[f].sealed # S.priv[w] /\ Coin(2) THEN ""
                    ELSE IF Coin(3) THEN "" ELSE IF Coin(8) THEN RS(Pass) ELSE IF HasKs(S, w) THEN S.priv[w] ELSE FreshPass(w)])
  \/ \E w \in Up : Do([t |-> "Lock", w |-> w])
  \/ \E w \in Up : \E i \in W(IF Focus = "keys" THEN 7 ELSE 3) : Do([t |-> "Unlock", w |-> w, p |-> PickPriv(w)])
  \/ \E w \in Up : Live(w) /\ Do([t |-> "Sign", w |-> w, s |-> PickSeed(w), b |-> RS({0, 1}), i |-> RS(0..2)])
  \/ \E w \in Up : Live(w) /\ Do([t |-> "Ordinal", w |-> w, s |-> PickSeed(w), b |-> RS({0, 1}), i |-> RS(0..2)])

GSpec == GInit /\ [][GNext]_<<S, hist>>
Emit == Len(hist) = GenLen => PrintT(<<"BEHAVIOUR", ToJson(hist)>>)
=============================================================================
