---------------------------- MODULE BucketStore ----------------------------
(***************************************************************************)
(* Contract of the wallet's bucketed key-value store                       *)
(* (poc/wallet/db: DB / DBTransaction / ReadTransaction / Bucket, backend  *)
(* poc/wallet/db/ldb).  Serves property C19.                               *)
(*                                                                         *)
(* The store is a tree of buckets; every bucket is an independent map from *)
(* binary keys to non-empty values.  One write transaction at a time works *)
(* on a private copy (`tx`) that replaces the committed image on Commit    *)
(* and is dropped on Rollback; read transactions read the committed image. *)
(*                                                                         *)
(* Bucket names and keys are sequences of abstract characters; the driver  *)
(* maps characters to bytes injectively, so the prefix relation of the     *)
(* model is the prefix relation of the bytes.  Which characters exist is   *)
(* chosen adversarially: the separator the backend uses to build its       *)
(* LevelDB keys, the letter that starts its bucket-index keys, depth       *)
(* digits, NUL / 0xff bytes, an over-long run.                             *)
(*                                                                         *)
(* Structure follows the code: one action per public call; a call on a    *)
(* bucket is preceded by resolving its path from the transaction           *)
(* (TopLevelBucket, then Bucket(name) per level) - "nobucket" is the       *)
(* driver's outcome when that resolution returns nil.                      *)
(*                                                                         *)
(* Mirrored API details (not part of C19, modelled as the code has them):  *)
(*   Put with an empty value or empty key is an error; Get / Delete of the *)
(*   empty key return nil; DeleteBucket of a missing or ill-named bucket   *)
(*   returns nil; NewBucket of an existing bucket is an error;             *)
(*   CreateTopLevelBucket of an existing bucket succeeds; top-level        *)
(*   buckets cannot be deleted; Clear removes the keys of that bucket only *)
(*   (sub-buckets stay).                                                   *)
(***************************************************************************)
EXTENDS Naturals, Sequences, FiniteSets, SequencesExt, TLC

CONSTANTS Names,      \* bucket names the environment uses (valid and invalid ones)
          Keys,       \* keys the environment uses (may contain <<>>)
          ScanPrefixes,   \* prefixes used for scans (may contain <<>>)
          Vals,       \* values; "" is the empty value
          BadChars,   \* characters that make a bucket name invalid (separator, over-long run)
          MaxDepth    \* bound on nesting used by the environment

VARIABLES committed,  \* durable image: [b |-> set of bucket paths, kv |-> set of <<path, key, value>>]
          tx,         \* NoTx or the working image of the open write transaction
          opened      \* the store handle is open

vars == <<committed, tx, opened>>

NoTx == [none |-> TRUE]
EmptyStore == [b |-> {}, kv |-> {}]

ValidName(n) == n # <<>> /\ \A i \in 1..Len(n) : n[i] \notin BadChars

Has(s, p, k) == \E e \in s.kv : e[1] = p /\ e[2] = k
Lookup(s, p, k) == IF Has(s, p, k) THEN (CHOOSE e \in s.kv : e[1] = p /\ e[2] = k)[3] ELSE "nil"
Scan(s, p, pre) == {<<e[2], e[3]>> : e \in {f \in s.kv : f[1] = p /\ IsPrefix(pre, f[2])}}
Children(s, p) == {q[Len(q)] : q \in {r \in s.b : Len(r) = Len(p) + 1 /\ SubSeq(r, 1, Len(p)) = p}}
Tops(s) == {q[1] : q \in {r \in s.b : Len(r) = 1}}
Under(p, q) == IsPrefix(p, q)           \* q is p or inside p's subtree

(* ------------------------------ results ------------------------------ *)
CreateTopRes(s, n)    == IF ValidName(n) THEN "ok" ELSE "err"
NewBucketRes(s, p, n) == IF p \notin s.b THEN "nobucket"
                         ELSE IF ~ValidName(n) \/ Append(p, n) \in s.b THEN "err" ELSE "ok"
DeleteBucketRes(s, p, n) == IF p \notin s.b THEN "nobucket" ELSE "ok"
PutRes(s, p, k, v)    == IF p \notin s.b THEN "nobucket" ELSE IF v = "" \/ k = <<>> THEN "err" ELSE "ok"
OnBucketRes(s, p)     == IF p \notin s.b THEN "nobucket" ELSE "ok"     \* Get, Delete, Clear, scans, listings

(* ------------------------------ effects ------------------------------ *)
CreateTopEff(s, n)    == IF CreateTopRes(s, n) = "ok" THEN [s EXCEPT !.b = @ \cup {<<n>>}] ELSE s
NewBucketEff(s, p, n) == IF NewBucketRes(s, p, n) = "ok" THEN [s EXCEPT !.b = @ \cup {Append(p, n)}] ELSE s
DeleteBucketEff(s, p, n) ==
    IF p \in s.b /\ Append(p, n) \in s.b
    THEN [b |-> {q \in s.b : ~Under(Append(p, n), q)},
          kv |-> {e \in s.kv : ~Under(Append(p, n), e[1])}]
    ELSE s
PutEff(s, p, k, v)    == IF PutRes(s, p, k, v) = "ok"
                         THEN [s EXCEPT !.kv = {e \in @ : ~(e[1] = p /\ e[2] = k)} \cup {<<p, k, v>>}]
                         ELSE s
DeleteEff(s, p, k)    == [s EXCEPT !.kv = {e \in @ : ~(e[1] = p /\ e[2] = k)}]
ClearEff(s, p)        == [s EXCEPT !.kv = {e \in @ : e[1] # p}]

(* ------------------------------ actions ------------------------------ *)
Init == committed = EmptyStore /\ tx = NoTx /\ opened = TRUE

Begin    == opened /\ tx = NoTx /\ tx' = committed /\ UNCHANGED <<committed, opened>>
Commit   == tx # NoTx /\ committed' = tx /\ tx' = NoTx /\ UNCHANGED opened
Rollback == tx # NoTx /\ tx' = NoTx /\ UNCHANGED <<committed, opened>>
Reopen   == opened /\ tx = NoTx /\ UNCHANGED vars          \* Close + OpenDB; nothing may change

InTx(new) == tx # NoTx /\ tx' = new /\ UNCHANGED <<committed, opened>>

CreateTop(n)       == tx # NoTx /\ InTx(CreateTopEff(tx, n))
NewBucket(p, n)    == tx # NoTx /\ InTx(NewBucketEff(tx, p, n))
DeleteBucket(p, n) == tx # NoTx /\ InTx(DeleteBucketEff(tx, p, n))
Put(p, k, v)       == tx # NoTx /\ InTx(PutEff(tx, p, k, v))
Delete(p, k)       == tx # NoTx /\ InTx(DeleteEff(tx, p, k))
Clear(p)           == tx # NoTx /\ InTx(ClearEff(tx, p))
\* observers inside the write transaction and in a read transaction: no state change
Observe            == UNCHANGED vars

Paths == UNION {[1..d -> Names] : d \in 1..MaxDepth}

Next ==
    \/ Begin \/ Commit \/ Rollback \/ Reopen
    \/ \E n \in Names : CreateTop(n)
    \/ \E p \in Paths, n \in Names : Len(p) < MaxDepth /\ (NewBucket(p, n) \/ DeleteBucket(p, n))
    \/ \E p \in Paths, k \in Keys, v \in Vals : Put(p, k, v)
    \/ \E p \in Paths, k \in Keys : Delete(p, k)
    \/ \E p \in Paths : Clear(p)

Spec == Init /\ [][Next]_vars

(* ------------------------------ properties ------------------------------ *)
WellFormedStore(s) ==
    /\ \A p \in s.b : \A i \in 1..Len(p) : ValidName(p[i])
    /\ \A p \in s.b : Len(p) > 1 => SubSeq(p, 1, Len(p) - 1) \in s.b         \* a bucket's parent exists
    /\ \A e \in s.kv : e[1] \in s.b /\ e[2] # <<>> /\ e[3] # ""                \* keys live in existing buckets
    /\ \A e, f \in s.kv : e[1] = f[1] /\ e[2] = f[2] => e = f                  \* a map, not a multimap

WellFormed == WellFormedStore(committed) /\ (tx # NoTx => WellFormedStore(tx))

BucketOf(s, p) == {<<e[2], e[3]>> : e \in {f \in s.kv : f[1] = p}}

\* Isolation: an operation that names bucket p changes only p (DeleteBucket: only the named subtree).
Isolation == [][tx # NoTx /\ tx' # NoTx =>
                 \/ tx' = tx
                 \/ \E p \in Paths : \A q \in tx.b \cup tx'.b :
                        q # p => (q \in tx.b <=> q \in tx'.b) /\ BucketOf(tx, q) = BucketOf(tx', q)
                 \/ \E p \in Paths : /\ \A q \in tx.b : ~Under(p, q) => q \in tx'.b /\ BucketOf(tx, q) = BucketOf(tx', q)
                                     /\ tx'.b \subseteq tx.b
                 \/ tx.kv = tx'.kv /\ tx.b \subseteq tx'.b /\ Cardinality(tx'.b) = Cardinality(tx.b) + 1]_vars

\* The committed image changes only by Commit, and then becomes exactly the transaction's image.
Atomic == [][committed' # committed => tx # NoTx /\ committed' = tx /\ tx' = NoTx]_vars
\* A rolled-back transaction leaves no trace; a new transaction starts from the committed image.
FreshTx == [][tx = NoTx /\ tx' # NoTx => tx' = committed]_vars
=============================================================================
