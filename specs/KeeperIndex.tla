------------------------------- MODULE KeeperIndex -------------------------------
(***************************************************************************)
(* What the space keeper may load from its plot directories at start-up    *)
(* (capacity/strategy.go generateInitialIndex, upgradeMassDBFile;          *)
(* workspace.go NewWorkSpace; massdb.v1 OpenDB / loadHashMap).  Serves the *)
(* start-up half of C11 (the request half - only Delete deletes, refused   *)
(* while busy - is in Keeper.tla).                                         *)
(*                                                                         *)
(* A directory content is a set of abstract plot files.  A file has a name *)
(* (ordinal, key, bit length; current or legacy format), a header kind, a  *)
(* directory, a recorded progress (nothing; table A complete and table B   *)
(* begun - a plot stopped between its passes; plotted) and possibly its A  *)
(* companion.                                                              *)
(* The keeper must index, exactly once, every GOOD file - well-formed      *)
(* header that matches the name, key owned by the wallet with that         *)
(* ordinal - with state ready or registered from its progress; must index  *)
(* nothing else; must serve                                                *)
(* (The trace specification also follows the start-up with a Delete of     *)
(* every indexed space: nothing of a deleted space may be left, nothing    *)
(* else may be touched.)                                                   *)
(* proofs only from good plotted files; and indexing must not delete or    *)
(* alter any file (legacy names are renamed to the current format).        *)
(***************************************************************************)
EXTENDS Integers, Sequences, FiniteSets, TLC

Owned == {"k0", "k1", "k2"}                 \* wallet keys; the ordinal of k<i> is i
Keys == Owned \cup {"kf"}                   \* kf: a key the wallet does not own
OrdOf(k) == CASE k = "k0" -> 0 [] k = "k1" -> 1 [] k = "k2" -> 2 [] OTHER -> 7
HdrKinds == {"ok", "otherOwnedKey", "foreignKey", "otherBL", "badCode", "badVersion", "shortHeader", "typeA", "badPkHash"}
Dirs == {"d1", "d2"}

File == [key : Keys, ordOK : BOOLEAN, bl : {24, 26}, legacy : BOOLEAN, hdr : HdrKinds, d : Dirs, prog : {"none", "preplotted", "plotted"}, hasA : BOOLEAN]
Plotted(f) == f.prog = "plotted"

\* (a missing table A of an unplotted space is recreated empty and plotted again: mirrored detail)
Good1(f) == /\ f.hdr = "ok" /\ f.key \in Owned
            /\ (f.ordOK \/ f.legacy)               \* a legacy name carries no ordinal: the wallet's is used
SpaceOf(f) == <<f.key, f.bl>>
\* a legacy-named file is taken over (renamed) unless a current-format file already has the name it would get
Shadowed(fs, f) == f.legacy /\ \E g \in fs : ~g.legacy /\ g.ordOK /\ g.d = f.d /\ g.key = f.key /\ g.bl = f.bl
\* a directory content: at most one file per (directory, key, bit length, name format)
WellFormed(fs) == \A f, g \in fs : (f.d = g.d /\ f.key = g.key /\ f.bl = g.bl /\ f.legacy = g.legacy /\ f.ordOK = g.ordOK) => f = g

\* the index the keeper must build: one entry per space that has a good file
Good(fs, f) == Good1(f) /\ ~Shadowed(fs, f)
ExpectedIndex(fs) == {[key |-> s[1], bl |-> s[2]] : s \in {SpaceOf(f) : f \in {g \in fs : Good(fs, g)}}}
\* its state comes from the progress of the file that is loaded (any good file of that space)
StateOK(fs, e, st) == \E f \in fs : Good(fs, f) /\ SpaceOf(f) = <<e.key, e.bl>> /\ st = (IF Plotted(f) THEN "ready" ELSE "registered")      \* ready only from table B's final checkpoint
\* proofs may be served only for a space whose loaded file is good and plotted
MayServe(fs, e) == \E f \in fs : Good(fs, f) /\ Plotted(f) /\ SpaceOf(f) = <<e.key, e.bl>>

VARIABLE content
\* every content of one or two files (bit length 24 for the exhaustive run) is an initial state; nothing moves
Init == \E f, g \in {x \in File : x.bl = 24} : WellFormed({f, g}) /\ content = {f, g}
Next == UNCHANGED content
Spec == Init /\ [][Next]_content

\* sanity of the contract itself: never two entries for one space, nothing for a foreign key
IndexSane == /\ \A a, b \in ExpectedIndex(content) : (a.key = b.key /\ a.bl = b.bl) => a = b
             /\ \A e \in ExpectedIndex(content) : e.key \in Owned
=============================================================================
