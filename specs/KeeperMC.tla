------------------------------- MODULE KeeperMC -------------------------------
EXTENDS Keeper
MCOrder == <<"w1", "w2", "w3">>
MCOrder2 == <<"w1", "w2">>
QueueSmall == BagCardinality(K.queue) <= 3
(* Liveness (checked under SPECIFICATION FairSpec, without a state constraint): with the plotter's own steps and the
   end of a running plot weakly fair, nothing the plotter has started stays unfinished - a popped request is resolved,
   a space does not stay "plotting" for ever - whatever the callers do in between. *)
PlotterSteps == \/ CanStep1(K) /\ K' = Step1(K)
                \/ \E o \in {"complete", "aborted"} : CanPlotEnd(K) /\ K' = PlotEnd(K, o)
                \/ CanStep3(K) /\ K' = Step3(K)
FairSpec == Spec /\ WF_vars(PlotterSteps)
PoppedResolved == (K.plt.pc = "popped") ~> (K.plt.pc # "popped")
PlottingEnds == \A w \in Spaces : (K.st[w] = "plotting") ~> (K.st[w] # "plotting")
PlotterReturnsToIdle == []<>(K.plt.pc = "idle")
=============================================================================
