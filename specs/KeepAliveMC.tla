------------------------------- MODULE KeepAliveMC -------------------------------
EXTENDS KeepAlive, Json
Emit == now = Horizon => PrintT(<<"BEHAVIOUR", ToJson(<<[frame |-> [modeA |-> sc.mode["A"], modeB |-> sc.mode["B"], hole |-> sc.hole, data |-> sc.data],
                                                        expect |-> [stopA |-> S.stop["A"], stopB |-> S.stop["B"]]]>>)>>)
=============================================================================
