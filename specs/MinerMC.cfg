CONSTANTS
  Proofs = {"a", "b"}
  W = 2
  MaxNow = 4
  AllowAhead = 1
  RH = {1, 2}
  RS0 <- RS0all
SPECIFICATION Spec
INVARIANTS OnlyWinning NotEarly LookAhead NoDoubleMining
PROPERTIES AbandonOnStale
CHECK_DEADLOCK FALSE
