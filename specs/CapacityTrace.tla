------------------------------- MODULE CapacityTrace -------------------------------
(***************************************************************************)
(* Trace validation for Capacity.tla: the recorded requests (made the way  *)
(* the API makes them: admission check, then the keeper) with the          *)
(* selection, the index and the plot files after each.  Only the CONTRACT  *)
(* (Good / GoodByPath / GoodByBL) is demanded of the real keeper.          *)
(***************************************************************************)
EXTENDS Capacity, Json, SequencesExt
Traces == ndJsonDeserialize("traces.ndjson")
VARIABLES tr, l
ASSUME TLCSet(1, {}) /\ TLCSet(2, [i \in DOMAIN Traces |-> 0])
TDirs == <<"d1", "d2">>
DirSet == {"d1", "d2"}

\* spaces as the trace shows them; the directory of an indexed space is where its files are
FilesOf(e) == {Sp(f.o, f.bl, f.d) : f \in ToSet(e.files)}
IdxOf(e) == {s \in FilesOf(e) : \E i \in ToSet(e.idx) : i.o = s.o /\ i.bl = s.bl}
SelOf(e) == {Sp(s.o, s.bl, s.d) : s \in ToSet(e.sel)}
Consistent(e) ==
  /\ \A f \in ToSet(e.files) : f.a = TRUE \/ \E s \in ToSet(e.sel) : s.o = f.o /\ s.state = "ready"   \* both files of a pair
  /\ Cardinality(IdxOf(e)) = Len(e.idx) /\ Cardinality(FilesOf(e)) = Len(e.files)
  /\ IdxOf(e) = FilesOf(e)                                   \* every plot file pair is indexed, every indexed space has files
  /\ SelOf(e) \subseteq IdxOf(e)
  /\ \A i \in ToSet(e.idx) : i.using = (\E s \in ToSet(e.sel) : s.o = i.o)
  /\ \A n \in DOMAIN e : n \notin {"otherfiles_d1", "otherfiles_d2"}
  \* with the real wallet behind the keeper: every selected space signs under the key its files are named after
  /\ ("signok" \in DOMAIN e => e.signok = TRUE)

Unchanged(e) == IdxOf(e) = C.idx /\ {s.o : s \in SelOf(e)} = C.sel
\* mirrored detail: a by-path request makes its directories the keeper's directories (even when it then selects
\* nothing); a restart goes back to the configured ones
NewDirs(e) == IF e.a = "ByPath" THEN e.dirs ELSE IF e.a = "Restart" THEN TDirs ELSE C.dirs
Adopt(e) == C' = [idx |-> IdxOf(e), sel |-> {s.o : s \in SelOf(e)}, next |-> 0, dirs |-> NewDirs(e)]
Cnt(e) == [bl \in {b \in {24, 26, 28} : ToString(b) \in DOMAIN e.counts} |-> e.counts[ToString(bl)]]

Step(e) ==
  /\ Consistent(e)
  /\ Adopt(e)
  /\ \/ /\ e.a = "BySize"
        /\ IF e.t < MinSize THEN e.res = "err" /\ Unchanged(e)                    \* below the minimum: refused, nothing created
           ELSE e.res = "ok" /\ Good(C.idx, IdxOf(e), SelOf(e), e.t, DirSet, {C.dirs[1]})
     \/ e.a \in {"TooBig", "Wrap"} /\ e.res = "err" /\ Unchanged(e)               \* beyond the disk / out of range: refused
     \/ /\ e.a = "ByPath"
        /\ \/ e.res = "ok" /\ GoodByPath(C.idx, IdxOf(e), SelOf(e), e.dirs, e.ts)
           \/ e.res = "err" /\ IdxOf(e) = C.idx /\ \A i \in DOMAIN e.dirs : e.ts[i] < MinSize   \* nothing fits anywhere
     \/ /\ e.a = "ByBL"
        /\ \/ e.res = "ok" /\ GoodByBL(C.idx, IdxOf(e), SelOf(e), Cnt(e), C.dirs[1])
           \/ e.res = "err" /\ IdxOf(e) = C.idx /\ \A bl \in DOMAIN Cnt(e) : Cnt(e)[bl] = 0
     \/ e.a = "Remove" /\ (e.res = "noop" \/ (e.res = "ok" /\ e.o \in C.sel /\ IdxOf(e) = C.idx /\ {s.o : s \in SelOf(e)} = C.sel \ {e.o}))
     \/ e.a = "Delete" /\ (e.res = "noop" \/ (e.res = "ok" /\ e.o \in C.sel /\ IdxOf(e) = {s \in C.idx : s.o # e.o}
                                               /\ {s.o : s \in SelOf(e)} = C.sel \ {e.o}))
     \* a restarted keeper finds every space again; nothing is selected until it is configured
     \/ e.a = "Restart" /\ e.res = "ok" /\ IdxOf(e) = C.idx /\ SelOf(e) = {}

TInit == Init /\ tr \in DOMAIN Traces /\ l = 1
TNext == /\ l <= Len(Traces[tr].ev) /\ Step(Traces[tr].ev[l])
         /\ l' = l + 1 /\ UNCHANGED tr
Mark == /\ (IF l - 1 > TLCGet(2)[tr] THEN TLCSet(2, [TLCGet(2) EXCEPT ![tr] = l - 1]) ELSE TRUE)
        /\ (IF l = Len(Traces[tr].ev) + 1 THEN TLCSet(1, TLCGet(1) \cup {tr}) ELSE TRUE)
Done == PrintT(<<"ACCEPTED", ToJson(TLCGet(1))>>) /\ PrintT(<<"HW", ToJson(TLCGet(2))>>)
=============================================================================
