CONSTANTS
  GenLen = 10
INIT GInit
NEXT GNext
INVARIANT Emit
CHECK_DEADLOCK FALSE
