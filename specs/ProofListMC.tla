------------------------------- MODULE ProofListMC -------------------------------
EXTENDS ProofList, Json
Emit == case # NoCase => PrintT(<<"BEHAVIOUR", ToJson(<<[frame |-> case]>>)>>)
=============================================================================
