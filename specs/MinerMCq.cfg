CONSTANTS
  Proofs = {"a", "b"}
  W = 2
  MaxNow = 3
  AllowAhead = 1
  RH = {1}
  RS0 = {0, 1}
SPECIFICATION Spec
INVARIANTS OnlyWinning NotEarly LookAhead NoDoubleMining
PROPERTIES AbandonOnStale
CHECK_DEADLOCK FALSE
