------------------------------- MODULE Capacity -------------------------------
(***************************************************************************)
(* Capacity configuration of the space keeper                              *)
(* (poc/engine/spacekeeper/capacity: ConfigureBySize / ByPath /            *)
(* ByBitLength and their fill / generate helpers).  Serves C15.   *)
(*                                                                         *)
(* State: the indexed spaces (ordinal, bit length, directory), which of    *)
(* them are selected (in use), the next key ordinal of the wallet.         *)
(* Sizes are in half units of 8 MiB (plot sizes 12 / 52 / 224 units are    *)
(* 24 / 104 / 448) so that targets one byte above or below a multiple can  *)
(* be expressed as odd numbers.                                            *)
(*                                                                         *)
(* The CONTRACT is the predicate Good: what a user may rely on, whatever   *)
(* selection the keeper makes.  The MECHANISM is the code's greedy fill    *)
(* (largest bit length first, lowest ordinal first, skip what does not     *)
(* fit, then create new spaces largest first).  TLC checks that the        *)
(* mechanism satisfies the contract for every set of existing spaces and   *)
(* every target of the bounded model; traces of the real keeper are        *)
(* validated against the contract only.                                    *)
(***************************************************************************)
EXTENDS Integers, Sequences, FiniteSets, TLC

CONSTANTS Dirs,        \* plot directories, Dirs[1] is the default one for new spaces
          MaxOrd,      \* bound on key ordinals
          Targets      \* target sizes (half units) the environment asks for

BLs == <<28, 26, 24>>
Size(bl) == CASE bl = 24 -> 24 [] bl = 26 -> 104 [] bl = 28 -> 448
MinSize == 24

VARIABLE C     \* [idx |-> set of [o, bl, d], sel |-> set of ordinals, next |-> next ordinal,
               \*  dirs |-> the directories the keeper currently works on (a by-path request replaces them)]
Sp(o, bl, d) == [o |-> o, bl |-> bl, d |-> d]

RECURSIVE SumOf(_)
SumOf(S) == IF S = {} THEN 0 ELSE LET x == CHOOSE y \in S : TRUE IN Size(x.bl) + SumOf(S \ {x})
Selected(c) == {s \in c.idx : s.o \in c.sel}

(* ------------------------------ contract ------------------------------ *)
\* a selection S (subset of the new index I2) is good for target t over the directories ds, given the old index I
Good(I, I2, S, t, ds, newdirs) ==
  /\ I \subseteq I2 /\ S \subseteq I2
  /\ \A s \in S : s.d \in ds
  /\ SumOf(S) <= t                                        \* never more than requested
  /\ t - SumOf(S) < MinSize                               \* short of it by less than the smallest plot
  /\ \A u \in I \ S : u.d \in ds => SumOf(S) + Size(u.bl) > t    \* an unused indexed space would not fit
  /\ \A n \in I2 \ I : n \in S /\ n.d \in newdirs         \* new spaces are selected and lie where requested
  /\ \A n \in I2 \ I, u \in I \ S : u.d \in ds => u.bl # n.bl   \* no new space while an indexed one of that size is unused
GoodByPath(I, I2, S, ds, ts) ==
  /\ I \subseteq I2 /\ S \subseteq I2
  /\ \A i \in DOMAIN ds : LET Si == {s \in S : s.d = ds[i]} IN
        /\ SumOf(Si) <= ts[i] /\ ts[i] - SumOf(Si) < MinSize
        /\ \A u \in I \ S : u.d = ds[i] => SumOf(Si) + Size(u.bl) > ts[i]
        /\ \A n \in I2 \ I, u \in I \ S : (u.d = ds[i] /\ n.d = ds[i]) => u.bl # n.bl
  /\ \A s \in S : \E i \in DOMAIN ds : s.d = ds[i]
  /\ \A n \in I2 \ I : n \in S
GoodByBL(I, I2, S, cnt, newdir) ==
  /\ I \subseteq I2 /\ S \subseteq I2
  /\ \A bl \in DOMAIN cnt : Cardinality({s \in S : s.bl = bl}) = cnt[bl]              \* exactly the counts
  /\ \A s \in S : s.bl \in DOMAIN cnt
  /\ \A n \in I2 \ I : n \in S /\ n.d = newdir
  /\ \A bl \in DOMAIN cnt : (\E n \in I2 \ I : n.bl = bl) => {u \in I : u.bl = bl} \subseteq S   \* reuse before create

(* ------------------------------ mechanism ------------------------------ *)
\* spaces of bit length bl in ascending ordinal order
RECURSIVE Asc(_)
Asc(S) == IF S = {} THEN <<>> ELSE LET m == CHOOSE x \in S : \A y \in S : x.o <= y.o IN <<m>> \o Asc(S \ {m})
Ordered(I) == Asc({s \in I : s.bl = 28}) \o Asc({s \in I : s.bl = 26}) \o Asc({s \in I : s.bl = 24})
\* fill from indexed spaces: take each that still fits
RECURSIVE Fill(_, _, _)
Fill(seq, cur, t) == IF seq = <<>> THEN {}
                     ELSE IF cur + Size(Head(seq).bl) > t THEN Fill(Tail(seq), cur, t)
                     ELSE {Head(seq)} \cup Fill(Tail(seq), cur + Size(Head(seq).bl), t)
\* create new spaces, largest first, while they fit
RECURSIVE Create(_, _, _, _, _)
Create(i, cur, t, next, d) ==
  IF i > Len(BLs) THEN {}
  ELSE IF t - cur < Size(BLs[i]) THEN Create(i + 1, cur, t, next, d)
  ELSE {Sp(next, BLs[i], d)} \cup Create(i, cur + Size(BLs[i]), t, next + 1, d)

BySizeMech(c, t) ==
  LET S1 == Fill(Ordered(c.idx), 0, t)
      done == t - SumOf(S1) < MinSize
      N == IF done THEN {} ELSE Create(1, SumOf(S1), t, c.next, c.dirs[1])
  IN [c EXCEPT !.idx = c.idx \cup N, !.sel = {s.o : s \in S1 \cup N}, !.next = c.next + Cardinality(N)]

Init == C = [idx |-> {}, sel |-> {}, next |-> 0, dirs |-> Dirs]
BySize(t) == /\ t >= MinSize
             /\ LET c2 == BySizeMech(C, t) IN c2.next <= MaxOrd /\ C' = c2
\* a space taken out of the selection stays indexed (Remove); Delete erases it
Remove(o) == o \in C.sel /\ C' = [C EXCEPT !.sel = @ \ {o}]
Delete(o) == o \in C.sel /\ C' = [C EXCEPT !.sel = @ \ {o}, !.idx = {s \in @ : s.o # o}]
Next == (\E t \in Targets : BySize(t)) \/ (\E o \in C.sel : Remove(o) \/ Delete(o))
Spec == Init /\ [][Next]_C

\* the mechanism's selection satisfies the contract, from every reachable index and for every target
MechanismGood == \A t \in Targets : t >= MinSize =>
    LET c2 == BySizeMech(C, t) IN Good(C.idx, c2.idx, Selected(c2), t, {Dirs[i] : i \in DOMAIN Dirs}, {C.dirs[1]})
OrdinalsUnique == \A a, b \in C.idx : a.o = b.o => a = b
=============================================================================
