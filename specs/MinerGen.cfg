CONSTANTS
  GenLen = 4
INIT GInit
NEXT GNext
INVARIANT Emit
CHECK_DEADLOCK FALSE
