INIT TInit
NEXT TNext
CONSTRAINT Mark
POSTCONDITION Done
CHECK_DEADLOCK FALSE
