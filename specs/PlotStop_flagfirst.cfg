CONSTANTS
  Stoppers = {"stopws", "monitor", "close"}
  StartRule = "flagfirst"
  CloseRule = "first"
SPECIFICATION Spec
INVARIANT NoPanic
PROPERTY AllReturn
CHECK_DEADLOCK FALSE
