CONSTANTS
  Spaces = {"w1", "w2"}
  Order <- MCOrder2
  ChanCap = 2
SPECIFICATION Spec
CONSTRAINT QueueSmall
INVARIANTS TypeOK AtMostOnePlotting PlottingIsCurrent PendingKnown
PROPERTIES Documented AskedFor Withdrawn OnlyDeleteDeletes
CHECK_DEADLOCK FALSE
