---------------------------- MODULE BucketStoreTrace ----------------------------
(***************************************************************************)
(* Trace validation for BucketStore: is each execution recorded from the   *)
(* real store (harness/cmd/bucketdrv) a behaviour of the specification?    *)
(* Every recorded call must be the specification's action with the logged  *)
(* arguments, must report the specification's outcome, and the two logged  *)
(* projections - the tree seen through the API and the tree seen by a      *)
(* handle opened on a copy of the directory - must equal the working and   *)
(* the committed image of the specification after the step.                *)
(*                                                                         *)
(* traces.ndjson holds one scenario per line; each scenario is validated   *)
(* from its own initial state, so a rejected scenario does not hide the    *)
(* others.  TLC register 1 collects the accepted scenarios, register 2 the *)
(* length of the longest matched prefix per scenario.                      *)
(***************************************************************************)
EXTENDS BucketStore, Json

Traces == ndJsonDeserialize("traces.ndjson")
VARIABLES tr, l
tvars == <<vars, tr, l>>

ASSUME TLCSet(1, {}) /\ TLCSet(2, [i \in DOMAIN Traces |-> 0])

TBad == {"_", "L"}
Store(d) == [b |-> ToSet(d.b), kv |-> ToSet(d.kv)]
View == IF tx' # NoTx THEN tx' ELSE committed'

Post(e) == /\ Store(e.view) = View
           /\ Store(e.disk) = committed'
           /\ "err" \notin DOMAIN e.view /\ "err" \notin DOMAIN e.disk

Pairs(o) == {<<x[1], x[2]>> : x \in ToSet(o)}

Step(e) ==
    \/ e.a = "Begin"    /\ Begin    /\ e.res = "ok"
    \/ e.a = "Commit"   /\ Commit   /\ e.res = "ok"
    \/ e.a = "Rollback" /\ Rollback /\ e.res = "ok"
    \/ e.a = "Reopen"   /\ Reopen   /\ e.res = "ok"
    \/ e.a = "CreateTop"    /\ CreateTop(e.n)       /\ e.res = CreateTopRes(tx, e.n)
    \/ e.a = "NewBucket"    /\ NewBucket(e.p, e.n)  /\ e.res = NewBucketRes(tx, e.p, e.n)
    \/ e.a = "DeleteBucket" /\ DeleteBucket(e.p, e.n) /\ e.res = DeleteBucketRes(tx, e.p, e.n)
    \/ e.a = "Put"    /\ Put(e.p, e.k, e.v) /\ e.res = PutRes(tx, e.p, e.k, e.v)
    \/ e.a = "Delete" /\ Delete(e.p, e.k)   /\ e.res = OnBucketRes(tx, e.p)
    \/ e.a = "Clear"  /\ Clear(e.p)         /\ e.res = OnBucketRes(tx, e.p)
    \/ e.a = "Get"   /\ tx # NoTx /\ Observe /\ e.res = OnBucketRes(tx, e.p)
                     /\ (e.res = "ok" => e.out = Lookup(tx, e.p, e.k))
    \/ e.a = "Scan"  /\ tx # NoTx /\ Observe /\ e.res = OnBucketRes(tx, e.p)
                     /\ (e.res = "ok" => Pairs(e.out) = Scan(tx, e.p, e.k) /\ Len(e.out) = Cardinality(Pairs(e.out)))
    \/ e.a = "Names" /\ tx # NoTx /\ Observe /\ e.res = OnBucketRes(tx, e.p)
                     /\ (e.res = "ok" => ToSet(e.out) = Children(tx, e.p) /\ Len(e.out) = Cardinality(ToSet(e.out)))
    \/ e.a = "RGet"  /\ Observe /\ e.res = OnBucketRes(committed, e.p)
                     /\ (e.res = "ok" => e.out = Lookup(committed, e.p, e.k))
    \/ e.a = "RScan" /\ Observe /\ e.res = OnBucketRes(committed, e.p)
                     /\ (e.res = "ok" => Pairs(e.out) = Scan(committed, e.p, e.k) /\ Len(e.out) = Cardinality(Pairs(e.out)))

TInit == Init /\ tr \in DOMAIN Traces /\ l = 1
TNext == /\ l <= Len(Traces[tr].ev)
         /\ LET e == Traces[tr].ev[l] IN Step(e) /\ Post(e)
         /\ l' = l + 1 /\ UNCHANGED tr
TSpec == TInit /\ [][TNext]_tvars

Mark == /\ (IF l - 1 > TLCGet(2)[tr] THEN TLCSet(2, [TLCGet(2) EXCEPT ![tr] = l - 1]) ELSE TRUE)
        /\ (IF l = Len(Traces[tr].ev) + 1 THEN TLCSet(1, TLCGet(1) \cup {tr}) ELSE TRUE)
Done == PrintT(<<"ACCEPTED", ToJson(TLCGet(1))>>) /\ PrintT(<<"HW", ToJson(TLCGet(2))>>)
=============================================================================
