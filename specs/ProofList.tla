------------------------------- MODULE ProofList -------------------------------
(***************************************************************************)
(* config.DecodeProofList (config/util.go): the configured list of plot     *)
(* sizes and counts, "<BL>:<Count>,<BL>:<Count>", from which the keeper is  *)
(* configured at start-up (strategy.go).  A case is a list of one to three  *)
(* items, each of a class; the list decodes to the map bit length -> sum of *)
(* counts exactly when every item is well formed, names a permitted bit     *)
(* length and a count >= 0; otherwise it is refused as a whole.             *)
(***************************************************************************)
EXTENDS Integers, Sequences, FiniteSets, TLC

VARIABLE case, verdict
\* item classes; good ones carry their meaning
Good == {[k |-> "ok", bl |-> b, n |-> c, sp |-> s] : b \in {24, 26, 40}, c \in {0, 1, 5}, s \in {"none", "spaces"}}
Bad  == {[k |-> x, bl |-> 0, n |-> 0, sp |-> "none"] : x \in {"nocolon", "twocolons", "empty", "oddbl", "smallbl", "bigbl", "wordbl", "negbl", "negcount", "wordcount", "hugecount", "floatcount", "emptycount"}}
Items == Good \cup Bad
Cases == {<<a>> : a \in Items} \cup {<<a, b>> : a \in Good, b \in Items} \cup {<<a, b>> : a \in Bad, b \in Good}
         \cup {<<a, b, c>> : a \in {g \in Good : g.sp = "none" /\ g.n = 1}, b \in {g \in Good : g.sp = "none"}, c \in {i \in Items : i.sp = "none"}}
IsGood(i) == i.k = "ok"
RECURSIVE Sum(_, _)
Sum(s, b) == IF s = <<>> THEN 0 ELSE (IF Head(s).bl = b THEN Head(s).n ELSE 0) + Sum(Tail(s), b)
Expect(c) == IF \A i \in DOMAIN c : IsGood(c[i])
             THEN [ok |-> TRUE, m |-> [b \in {c[i].bl : i \in DOMAIN c} |-> Sum(c, b)]]
             ELSE [ok |-> FALSE, m |-> <<>>]
NoCase == <<>>
Init == case = NoCase /\ verdict = [ok |-> FALSE, m |-> <<>>]
Next == \E c \in Cases : case = NoCase /\ case' = c /\ verdict' = Expect(c)
Spec == Init /\ [][Next]_<<case, verdict>>
\* counts of a repeated bit length add up; a refused list yields nothing
AddsUp == case # NoCase /\ verdict.ok => \A b \in DOMAIN verdict.m : verdict.m[b] = Sum(case, b)
=============================================================================
