SPECIFICATION Spec
INVARIANTS OnlyConfigured Canonical Emit
CHECK_DEADLOCK FALSE
