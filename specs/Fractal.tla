------------------------------- MODULE Fractal -------------------------------
(***************************************************************************)
(* Routing of cluster-mining tasks and reports (package fractal:           *)
(* superior.go, collector.go, pool.go, reader.go, writer.go,               *)
(* connection/conn.go).  Serves C17.                                       *)
(*                                                                         *)
(* Topology: the superior S (LocalSuperior) with its collector pool;       *)
(* relays (a PersistentRemoteSuperior dialled into a pool: at the node it  *)
(* dialled it is a RemoteCollector, towards its own collectors it is a     *)
(* superior, and - as cmd fractal wires it - it runs a pool of its own     *)
(* that further relays may dial: RHome gives the tree); leaf collectors,   *)
(* each with a fixed home: S or a relay.                                   *)
(*                                                                         *)
(*   lsubs        leaves subscribed at S                                   *)
(*   alive[r]     relay r runs (a PersistentRemoteSuperior exists)         *)
(*   conn[r]      relay r's link to the node it dialled is up (= it is a   *)
(*                collector of that node's pool)                           *)
(*   rsubs[r]     leaves subscribed at relay r                             *)
(*   tasks[t]     NoTask, or [kind, target, open, q]: q[src] is what the   *)
(*                waiter's channel holds from source src (a leaf of S or a *)
(*                relay), in arrival order                                 *)
(*   latest       S's current broadcast task; rlatest[r] the relay's       *)
(*   got[c][t]    how many times leaf c was handed task t                  *)
(*                                                                         *)
(* One action per public call.  Mirrored details (what the code does,      *)
(* named, not demanded by C17):                                            *)
(*   M1  a relay hands everything it receives to all its collectors, so a  *)
(*       task targeted at a relay reaches every leaf of that relay;        *)
(*   M2  a relay remembers the last quality task for late subscribers and  *)
(*       never forgets it (no removal travels downstream);                 *)
(*   M3  a report for an unknown or removed task is dropped silently;      *)
(*       reports already buffered stay readable after RemoveTask;          *)
(*   M4  a report through a relay is tagged with the relay;                *)
(*   M5  a report to a full channel blocks its sender: the environment of  *)
(*       this model does not send one (the wedge replay does).             *)
(*   M6  a relay whose link breaks stays up (PersistentRemoteSuperior):    *)
(*       Outage / Recover.  Its collectors stay subscribed, it keeps its   *)
(*       last quality task, further relays stay connected to its pool;     *)
(*       reports from below it are lost until it has dialled again; on     *)
(*       recovery it is a new collector of its parent and is handed the    *)
(*       parent's current quality task, which it hands on (again).         *)
(* Subscribe / Unsubscribe of an Auto leaf are the start and the stop of   *)
(* its LocalCollector.                                                     *)
(***************************************************************************)
EXTENDS Naturals, Sequences, FiniteSets, TLC

CONSTANTS Leaves, Relays, Home,      \* Home[c] \in {"S"} \cup Relays
          RHome,                     \* RHome[r] \in {"S"} \cup Relays: the node whose pool relay r dials (a tree: relays
                                     \* may hang off relays, as cmd fractal wires a PersistentRemoteSuperior to its own pool)
          Auto,                      \* leaves that are real LocalCollectors over a scripted keeper (at most one below each top-level node):
                                     \* handed a targeted (signature) task they answer it at once with the report named
                                     \* after them; handed a quality task they find nothing and stay silent
          TaskIds, Payloads, QCap

VARIABLE R
NoTask == [none |-> TRUE]
None == "none"
Sources == Leaves \cup Relays
Direct == {c \in Leaves : Home[c] = "S"}
Under(r) == {c \in Leaves : Home[c] = r}

InitR == [lsubs |-> {}, alive |-> [r \in Relays |-> FALSE], conn |-> [r \in Relays |-> FALSE], rsubs |-> [r \in Relays |-> {}],
             tasks |-> [t \in TaskIds |-> NoTask], latest |-> None, rlatest |-> [r \in Relays |-> None],
             got |-> [c \in Leaves |-> [t \in TaskIds |-> 0]]]
Init == R = InitR

Give(x, cs, t) == [x EXCEPT !.got = [c \in Leaves |-> IF c \in cs THEN [x.got[c] EXCEPT ![t] = @ + 1] ELSE x.got[c]]]
RECURSIVE Root(_)
Root(r) == IF RHome[r] = "S" THEN r ELSE Root(RHome[r])
TopLevel == {r \in Relays : RHome[r] = "S"}
Children(r) == {q \in Relays : RHome[q] = r}
RECURSIVE Desc(_)
Desc(r) == {r} \cup UNION {Desc(q) : q \in Children(r)}
Src(c) == IF Home[c] = "S" THEN c ELSE Root(Home[c])              \* M4: the collector the superior sees
\* the Auto leaf among cs (if any) answers the targeted task t: its report reaches the waiter through its node
Answer(x, cs, t) == LET as == cs \cap Auto IN
                    IF as = {} \/ x.tasks[t].kind # "target" \/ ~x.tasks[t].open THEN x
                    ELSE LET c == CHOOSE c \in as : TRUE IN [x EXCEPT !.tasks[t].q[Src(c)] = Append(@, c)]
\* relay r receives task t from its parent (M1, M2): its own collectors get it, and so does every relay connected to
\* its pool
RECURSIVE RelayRecv(_, _, _), RelaysRecv(_, _, _)
RelayRecv(x, r, t) ==
  LET y == Answer(Give(IF x.tasks[t].kind = "bcast" THEN [x EXCEPT !.rlatest[r] = t] ELSE x, x.rsubs[r], t), x.rsubs[r], t)
  IN RelaysRecv(y, {q \in Children(r) : y.conn[q]}, t)
RelaysRecv(x, rs, t) == IF rs = {} THEN x ELSE LET r == CHOOSE r \in rs : TRUE IN RelaysRecv(RelayRecv(x, r, t), rs \ {r}, t)
Connected(x) == {r \in Relays : x.conn[r]}
\* every link from node n up to S is up
RECURSIVE LinkUp(_, _)
LinkUp(x, n) == IF n = "S" THEN TRUE ELSE x.conn[n] /\ LinkUp(x, RHome[n])
NodeUp(x, n) == IF n = "S" THEN TRUE ELSE x.alive[n]

Subscribed(x, c) == IF Home[c] = "S" THEN c \in x.lsubs ELSE c \in x.rsubs[Home[c]]
CanSubscribe(x, c) == NodeUp(x, Home[c])
Subscribe(x, c) ==
  IF Home[c] = "S" THEN (LET y == [x EXCEPT !.lsubs = @ \cup {c}] IN IF x.latest # None THEN Give(y, {c}, x.latest) ELSE y)
  ELSE LET r == Home[c] y == [x EXCEPT !.rsubs[r] = @ \cup {c}] IN IF x.rlatest[r] # None THEN Give(y, {c}, x.rlatest[r]) ELSE y
Unsubscribe(x, c) == IF Home[c] = "S" THEN [x EXCEPT !.lsubs = @ \ {c}] ELSE [x EXCEPT !.rsubs[Home[c]] = @ \ {c}]

\* a relay dials the pool of its parent node, which must be up; it is handed the parent's current quality task
CanConnect(x, r) == ~x.alive[r] /\ NodeUp(x, RHome[r])
ParentLatest(x, r) == IF RHome[r] = "S" THEN x.latest ELSE x.rlatest[RHome[r]]
Connect(x, r) == LET y == [x EXCEPT !.alive[r] = TRUE, !.conn[r] = TRUE] IN IF ParentLatest(x, r) # None THEN RelayRecv(y, r, ParentLatest(x, r)) ELSE y
\* a relay that goes away takes everything below it with it
Disconnect(x, r) == [x EXCEPT !.alive = [q \in Relays |-> IF q \in Desc(r) THEN FALSE ELSE @[q]],
                              !.conn = [q \in Relays |-> IF q \in Desc(r) THEN FALSE ELSE @[q]],
                              !.rsubs = [q \in Relays |-> IF q \in Desc(r) THEN {} ELSE @[q]],
                              !.rlatest = [q \in Relays |-> IF q \in Desc(r) THEN None ELSE @[q]]]
\* M6: the link of a running relay breaks; the relay dials again after its retry interval
CanOutage(x, r) == x.conn[r]
Outage(x, r) == [x EXCEPT !.conn[r] = FALSE]
CanRecover(x, r) == x.alive[r] /\ ~x.conn[r]
Recover(x, r) == LET y == [x EXCEPT !.conn[r] = TRUE] IN IF ParentLatest(x, r) # None THEN RelayRecv(y, r, ParentLatest(x, r)) ELSE y

CanAdd(x, t) == x.tasks[t] = NoTask            \* a task id is used once
EmptyQ == [s \in Sources |-> <<>>]
AddBroadcast(x, t) ==
  LET y == [x EXCEPT !.tasks[t] = [kind |-> "bcast", target |-> None, open |-> TRUE, q |-> EmptyQ], !.latest = t]
  IN RelaysRecv(Give(y, y.lsubs, t), Connected(y) \cap TopLevel, t)
\* the target is a collector of S: a direct leaf or a top-level relay (a leaf or relay behind a relay is not known at S:
\* nothing is sent)
AddTarget(x, t, tg) ==
  LET y == [x EXCEPT !.tasks[t] = [kind |-> "target", target |-> tg, open |-> TRUE, q |-> EmptyQ]]
  IN IF tg \in Relays THEN (IF tg \in TopLevel /\ y.conn[tg] THEN RelayRecv(y, tg, t) ELSE y)
     ELSE Answer(Give(y, y.lsubs \cap {tg}, t), y.lsubs \cap {tg}, t)

Accepts(x, t) == x.tasks[t] # NoTask /\ x.tasks[t].open
RECURSIVE SumLen(_, _)
SumLen(q, S) == IF S = {} THEN 0 ELSE LET s == CHOOSE s \in S : TRUE IN Len(q[s]) + SumLen(q, S \ {s})
Unread(x, t) == SumLen(x.tasks[t].q, Sources)
Blocks(x, t) == Accepts(x, t) /\ Unread(x, t) >= QCap
CanReport(x, c) == NodeUp(x, Home[c])
\* M6: a report travels only over links that are up
Report(x, c, t, p) == IF Accepts(x, t) /\ LinkUp(x, Home[c]) THEN [x EXCEPT !.tasks[t].q[Src(c)] = Append(@, p)] ELSE x      \* M3
CanTake(x, t, s) == x.tasks[t] # NoTask /\ x.tasks[t].q[s] # <<>>
Take(x, t, s) == [x EXCEPT !.tasks[t].q[s] = Tail(@)]
RemoveTask(x, t) == IF x.tasks[t] = NoTask THEN x
                    ELSE [x EXCEPT !.tasks[t].open = FALSE, !.latest = IF x.latest = t THEN None ELSE @]

Next == \/ \E c \in Leaves : (CanSubscribe(R, c) /\ R' = Subscribe(R, c)) \/ R' = Unsubscribe(R, c)
        \/ \E r \in Relays : (CanConnect(R, r) /\ R' = Connect(R, r)) \/ R' = Disconnect(R, r)
        \/ \E r \in Relays : (CanOutage(R, r) /\ R' = Outage(R, r)) \/ (CanRecover(R, r) /\ R' = Recover(R, r))
        \/ \E t \in TaskIds : CanAdd(R, t) /\ (R' = AddBroadcast(R, t) \/ \E tg \in Sources : R' = AddTarget(R, t, tg))
        \/ \E c \in Leaves \ Auto, t \in TaskIds, p \in Payloads : CanReport(R, c) /\ ~Blocks(R, t) /\ R' = Report(R, c, t, p)
        \/ \E t \in TaskIds, s \in Sources : CanTake(R, t, s) /\ R' = Take(R, t, s)
        \/ \E t \in TaskIds : R' = RemoveTask(R, t)
Spec == Init /\ [][Next]_R

(* ------------------------------ properties (C17) ------------------------------ *)
Added(t) == R.tasks[t] # NoTask
\* a targeted task reaches only its target (M1: a relay's leaves are "its target")
TargetOnly == \A t \in TaskIds : Added(t) /\ R.tasks[t].kind = "target" =>
                 \A c \in Leaves : R.got[c][t] > 0 => (R.tasks[t].target = c \/ (Home[c] # "S" /\ R.tasks[t].target = Root(Home[c])))
\* the current broadcast task has reached every collector subscribed anywhere in the connected tree
BroadcastReaches == \A t \in TaskIds : R.latest = t =>
                      /\ \A c \in R.lsubs : R.got[c][t] >= 1
                      /\ \A r \in {q \in Relays : LinkUp(R, q)} : R.rlatest[r] = t /\ \A c \in R.rsubs[r] : R.got[c][t] >= 1
\* one hand-over per subscription: nothing is handed over unless a task is added, a relay connects or a leaf subscribes
OncePerEvent == [][\A c \in Leaves, t \in TaskIds : R'.got[c][t] <= R.got[c][t] + 1]_R
\* reports go only to the waiter of the task they name, appended to that source's stream, nothing else disturbed
ReportOnlyToNamed == [][\A t \in TaskIds, s \in Sources : Added(t) /\ R'.tasks[t] # NoTask /\ Len(R'.tasks[t].q[s]) > Len(R.tasks[t].q[s]) =>
                          /\ SubSeq(R'.tasks[t].q[s], 1, Len(R.tasks[t].q[s])) = R.tasks[t].q[s]
                          /\ Len(R'.tasks[t].q[s]) = Len(R.tasks[t].q[s]) + 1
                          /\ \A u \in TaskIds, v \in Sources : <<u, v>> # <<t, s>> /\ Added(u) => R'.tasks[u].q[v] = R.tasks[u].q[v]]_R
NoDeliveryAfterRemove == [][\A t \in TaskIds : Added(t) /\ ~R.tasks[t].open => Unread(R', t) <= Unread(R, t)]_R
Bounded == \A t \in TaskIds : Added(t) => Unread(R, t) <= QCap
\* a relay runs only while the node it dialled does; a link is up only between running nodes
TreeUp == \A r \in Relays : (R.alive[r] => NodeUp(R, RHome[r])) /\ (R.conn[r] => R.alive[r])
\* M6: an outage loses no subscription and no remembered task; nothing is handed over during it
OutageKeeps == [][\A r \in Relays : R.conn[r] /\ ~R'.conn[r] /\ R'.alive[r] => R'.rsubs = R.rsubs /\ R'.rlatest = R.rlatest /\ R'.got = R.got /\ R'.tasks = R.tasks]_R
\* M6: nothing from below a broken link reaches a waiter
LostWhileDown == [][\A t \in TaskIds, s \in Relays : Added(t) /\ R'.tasks[t] # NoTask /\ Len(R'.tasks[t].q[s]) > Len(R.tasks[t].q[s]) => R.conn[s]]_R
=============================================================================
