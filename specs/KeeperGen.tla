------------------------------- MODULE KeeperGen -------------------------------
(***************************************************************************)
(* Behaviour generator for Keeper.tla: API calls interleaved with plotter  *)
(* steps and plot outcomes; hist[1] records the initial states.            *)
(***************************************************************************)
EXTENDS Keeper, Json
CONSTANTS GenLen
VARIABLE hist
GOrder == <<"w1", "w2", "w3">>
RS(X) == RandomElement(IF Len(hist) >= 0 THEN X ELSE {})
Coin(n) == RS(1..n) = 1
W(n) == 1..n
Log(r) == hist' = Append(hist, r)
\* the plotter's possible next steps (which item is popped is the implementation's choice)
PCands == (IF CanRecv(K) THEN {Recv(K)} ELSE {}) \cup (IF CanStep1(K) THEN {Step1(K)} ELSE {})
          \cup (IF CanStep3(K) THEN {Step3(K)} ELSE {})
          \cup {Pop(K, x[1], x[2]) : x \in {y \in Spaces \X BOOLEAN : CanPop(K, y[1], y[2])}}
PickAct == IF Coin(3) THEN "Plot" ELSE IF Coin(2) THEN "Mine" ELSE IF Coin(2) THEN "Stop" ELSE IF Coin(2) THEN "Remove" ELSE "Delete"
GInit == Init /\ hist = <<[a |-> "Init", st |-> K.st]>>
\* the chia keeper (skchia): every space is plotted elsewhere and starts ready
GInitReady == /\ K = [st |-> [w \in Spaces |-> "ready"], using |-> [w \in Spaces |-> TRUE], chan |-> <<>>, queue |-> EmptyBag,
                      plt |-> Idle, run |-> FALSE, files |-> [w \in Spaces |-> TRUE]]
              /\ hist = <<[a |-> "Init", st |-> K.st]>>
GNext ==
  \/ \E i \in W(6) : \E w \in {RS(Spaces)}, a \in {PickAct} :
        ~Blocks(K, w, a) /\ K' = Act(K, w, a) /\ Log([a |-> "Act", w |-> w, act |-> a])
  \/ \E i \in W(2) : \E f \in {RS(Flagsets)}, a \in {PickAct} :
        K' = Bulk(K, f, a) /\ Log([a |-> "Bulk", flags |-> f, act |-> a])
  \/ \E i \in W(IF K.run THEN 0 ELSE 6) : ~K.run /\ K' = StartK(K) /\ Log([a |-> "Start"])
  \/ K.run /\ K.plt.pc # "popped" /\ Coin(3) /\ K' = StopK(K) /\ Log([a |-> "StopKeeper"])
  \/ \E i \in W(8) : PCands # {} /\ K' = RS(PCands) /\ Log([a |-> "P"])
  \/ \E i \in W(4) : CanPlotEnd(K) /\ \E o \in {RS({"complete", "aborted"})} : K' = PlotEnd(K, o) /\ Log([a |-> "PlotEnd", out |-> o])
Emit == Len(hist) = GenLen + 1 => PrintT(<<"BEHAVIOUR", ToJson(hist)>>)
=============================================================================
