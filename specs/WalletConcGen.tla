------------------------------- MODULE WalletConcGen -------------------------------
(* Generator of concurrent wallet histories: a sequential prefix, then 2-4 threads with short operation lists. *)
EXTENDS Integers, Sequences, TLC, Json
CONSTANT GenLen
VARIABLE hist
RS(X) == RandomElement(IF Len(hist) >= 0 THEN X ELSE {})
Coin(n) == RS(1..n) = 1
Priv == IF Coin(5) THEN RS({"p2", "q1", "bad"}) ELSE "p1"
Seed == IF Coin(4) THEN "s2" ELSE "s1"
OneOp == CASE Coin(4) -> [a |-> "GenKey"]
           [] Coin(4) -> [a |-> "NextAddr", s |-> Seed, b |-> RS({0, 1}), n |-> RS(1..2)]
           [] Coin(4) -> [a |-> "Sign", s |-> "s1", i |-> RS(0..3)]
           [] Coin(4) -> [a |-> "Ordinal", s |-> "s1", i |-> RS(0..4)]
           [] Coin(4) -> [a |-> "IsLocked"]
           [] Coin(3) -> [a |-> "List"]
           [] Coin(4) -> [a |-> "Remark", s |-> Seed, r |-> RS({"", "r1", "r2"})]
           [] Coin(3) -> [a |-> "Lock"]
           [] Coin(2) -> [a |-> "Unlock", p |-> Priv]
           [] Coin(3) -> [a |-> "Export", s |-> Seed, p |-> Priv]
           [] OTHER -> [a |-> "GenKey"]
\* the lock family: exports (which derive and then wipe the key-decrypting key), unlocks and locks with the right
\* passphrase, overlapping
LockOp == CASE Coin(3) -> [a |-> "Export", s |-> Seed, p |-> "p1"]
            [] Coin(2) -> [a |-> "Unlock", p |-> "p1"]
            [] Coin(3) -> [a |-> "Lock"]
            [] Coin(3) -> [a |-> "Sign", s |-> "s1", i |-> RS(0..1)]
            [] OTHER -> [a |-> "Export", s |-> "s1", p |-> "p1"]
ThreadOps == LET n == RS(2..5) IN [i \in 1..n |-> OneOp]
LockThreadOps == LET n == RS(3..5) IN [i \in 1..n |-> LockOp]
Prefix == <<[a |-> "NewKs", p |-> "p1", s |-> "s1", r |-> "r1"]>>
          \o (IF Coin(2) THEN <<[a |-> "NewKs", p |-> "p1", s |-> "s2", r |-> ""]>> ELSE <<>>)
          \o [i \in 1..RS(1..3) |-> [a |-> "GenKey"]]
          \o (IF Coin(2) THEN <<[a |-> "Unlock", p |-> "p1"]>> ELSE <<>>)
GInit == hist = <<>>
GNext == \/ \E k \in 1..2 : hist' = Append(hist, [prefix |-> Prefix, threads |-> [i \in 1..RS(2..4) |-> ThreadOps]])
         \/ hist' = Append(hist, [prefix |-> Prefix, threads |-> [i \in 1..RS(3..4) |-> LockThreadOps]])
Emit == Len(hist) = GenLen => PrintT(<<"BEHAVIOUR", ToJson(hist)>>)
=============================================================================
