------------------------------- MODULE MinerTrace -------------------------------
(***************************************************************************)
(* Trace validation for Miner.tla.  The trace is what the scripted chain   *)
(* and keeper saw of the real miner: templates served (with the proofs'    *)
(* real quality order and the target levels per slot), signing requests,   *)
(* blocks handed to ProcessBlock (decoded: parent, slot, whose proof, and   *)
(* whether timestamp, target, challenge, proof bytes and signature are     *)
(* right, and whether it came before its timestamp), tips, stop requests.  *)
(* Every submitted block must be the RightBlock of Miner.tla for its       *)
(* round; rounds that must produce a block are tracked in `due`.           *)
(***************************************************************************)
EXTENDS Miner, Json, SequencesExt
Traces == ndJsonDeserialize("traces.ndjson")
VARIABLES tr, l, T
ASSUME TLCSet(1, {}) /\ TLCSet(2, [i \in DOMAIN Traces |-> 0])
tvars == <<tr, l, T, M>>

ToSetS(s) == {s[i] : i \in DOMAIN s}
\* the round of Miner.tla that a Tpl event describes
RoundOf(e) == [h |-> e.h, prev |-> e.prev, s0 |-> e.s0,
               lst |-> [i \in DOMAIN e.proofs |-> e.proofs[i].k],
               st |-> [p \in {e.proofs[i].k : i \in DOMAIN e.proofs} |-> (CHOOSE x \in ToSetS(e.proofs) : x.k = p).st],
               order |-> [o \in Slots |-> e.order[o + 1]], nover |-> [o \in Slots |-> e.nover[o + 1]]]
Seen(i) == i \in DOMAIN T.rounds
TInit0 == T = [rounds |-> <<>>, mined |-> {}, due |-> {}, tipAt |-> <<>>, stopAt |-> -1, stopped |-> FALSE, accepted |-> 0, newblocks |-> 0]
GraceTip == 1000
GraceStop == 500

Step(e) ==
  \/ /\ e.ev = "Tpl"
     /\ LET r == RoundOf(e)
            obliged == HasElig(r) /\ e.tip \in {"none", "same"} /\ e.stopms = -1 /\ e.h \notin T.mined /\ T.stopAt < 0
        IN T' = [T EXCEPT !.rounds = (e.round :> r) @@ @, !.due = IF obliged THEN @ \cup {e.round} ELSE @,
                          !.tipAt = (e.round :> [kind |-> e.tip, ms |-> -1]) @@ @]
  \/ e.ev = "Sign" /\ e.round # -1 /\ T' = T
  \/ e.ev = "Tip" /\ T' = [T EXCEPT !.tipAt[e.round].ms = e.ms]
  \/ e.ev = "Expire" /\ T' = [T EXCEPT !.tipAt[e.round] = [kind |-> "better", ms |-> e.ms]]       \* somebody else's block ended the round
  \/ /\ e.ev = "Submit"
     /\ e.round # -1 /\ Seen(e.round)
     /\ e.hok /\ e.challok /\ e.aligned /\ e.targetok            \* the header is the template's, at a slot boundary, with that slot's target
     /\ e.k # "unknown" /\ e.proofok /\ e.sigok                   \* a proof the keeper offered, unaltered; signed with its space's key
     /\ ~e.early                                                 \* not before its timestamp
     /\ RightBlock(T.rounds[e.round], e.off, e.k)                \* earliest eligible slot, best eligible proof
     /\ e.signoff >= e.off - AllowAhead                          \* solved within the look-ahead
     /\ T.tipAt[e.round].kind # "switched"                       \* the best chain had moved on before the round began
     /\ (T.tipAt[e.round].kind = "better" /\ T.tipAt[e.round].ms >= 0) => e.signms <= T.tipAt[e.round].ms + GraceTip     \* M1
     /\ ~T.stopped /\ (T.stopAt >= 0 => e.signabs <= T.stopAt + GraceStop)                                               \* M2
     /\ e.h \notin T.mined
     /\ T' = [T EXCEPT !.due = @ \ {e.round}, !.mined = IF e.res = "accept" THEN @ \cup {e.h} ELSE @,
                       !.accepted = IF e.res = "accept" THEN @ + 1 ELSE @]
  \/ e.ev = "NewBlock" /\ T.newblocks < T.accepted /\ T' = [T EXCEPT !.newblocks = @ + 1]
  \* a stop request (it may come from an earlier round's schedule) ends every obligation to produce a block
  \/ e.ev = "Stop" /\ T' = [T EXCEPT !.stopAt = e.abs, !.due = {}]
  \/ e.ev = "Stopped" /\ e.prompt /\ T' = [T EXCEPT !.stopped = TRUE]
  \* every round that had to produce a block did; every accepted block was announced
  \/ e.ev = "End" /\ T.due = {} /\ T.newblocks = T.accepted /\ T' = T

TInit == Init /\ TInit0 /\ tr \in DOMAIN Traces /\ l = 1
TNext == /\ l <= Len(Traces[tr].ev) /\ Step(Traces[tr].ev[l])
         /\ l' = l + 1 /\ UNCHANGED <<tr, M>>
Mark == /\ (IF l - 1 > TLCGet(2)[tr] THEN TLCSet(2, [TLCGet(2) EXCEPT ![tr] = l - 1]) ELSE TRUE)
        /\ (IF l = Len(Traces[tr].ev) + 1 THEN TLCSet(1, TLCGet(1) \cup {tr}) ELSE TRUE)
Done == PrintT(<<"ACCEPTED", ToJson(TLCGet(1))>>) /\ PrintT(<<"HW", ToJson(TLCGet(2))>>)
=============================================================================
