CONSTANTS
  Proofs = {"a", "b", "c", "d", "e"}
  W = 4
  MaxNow = 0
  AllowAhead = 1
INIT TInit
NEXT TNext
CONSTRAINT Mark
POSTCONDITION Done
CHECK_DEADLOCK FALSE
