------------------------------- MODULE PlotTableMC -------------------------------
EXTENDS PlotTable
\* every P over 1..N-1 (P[0] is irrelevant: x = 0 cannot be stored)
AllP == {p \in [X -> X] : p[0] = 0}
\* three different F
F1 == [e \in X \X X |-> (e[1] + 2 * e[2]) % N]
F2 == [e \in X \X X |-> (e[1] * e[2] + 1) % N]
F3 == [e \in X \X X |-> (3 * e[1] + e[2] + 2) % N]
SomeF == {F1, F2, F3}
\* N = 8: a sample of P
P8a == [x \in X |-> (x * 3 + 1) % N]
P8b == [x \in X |-> (x * x + 2) % N]
P8c == [x \in X |-> IF x % 2 = 0 THEN x \div 2 ELSE Flip(x \div 2)]
SomeP8 == {P8a, P8b, P8c}
=============================================================================
