------------------------------- MODULE Miner2 -------------------------------
(***************************************************************************)
(* The chia miner (poc/engine.v2/pocminer/miner) mining through the         *)
(* cluster superior (fractal.LocalSuperior).  Not anchored by a listed      *)
(* property of its own: it is the second implementation of what C08 asks    *)
(* of a miner, built on the plumbing of C17.                                *)
(*                                                                         *)
(* A round: the miner broadcasts a quality task; collectors report          *)
(* qualities, each for a slot (an item: quality q, collector c, slot        *)
(* offset off, bound or not; per slot the qualities ordered best first and  *)
(* how many of them exceed the target).  The miner keeps the best item      *)
(* seen so far - earliest slot, then highest quality, among those over      *)
(* the target and passing binding - and when that item's slot has come it   *)
(* removes the quality task, asks the item's collector for the proof and    *)
(* then for the signature, assembles and submits the block (not before      *)
(* its timestamp).                                                         *)
(*                                                                         *)
(* Contract (Winner) + the code's running-best loop as mechanism: TLC       *)
(* checks that whatever the order in which reports arrive, the block        *)
(* decided is the Winner of the reports received until then.                *)
(***************************************************************************)
EXTENDS Integers, Sequences, FiniteSets, TLC

CONSTANTS Quals, Cols, W

Slots == 0..(W - 1)
None == [none |-> TRUE]
MinI(a, b) == IF a < b THEN a ELSE b
RangeOf(s) == {s[i] : i \in DOMAIN s}

\* a round: items (set of [q, c, off, bound]), order[off] (sequence of q, best first), nover[off]
ItemsAt(r, its, off) == {it \in its : it.off = off}
Over(r, off) == IF off \in Slots THEN {r.order[off][i] : i \in 1..MinI(r.nover[off], Len(r.order[off]))} ELSE {}
Elig(r, its) == {it \in its : it.bound /\ it.q \in Over(r, it.off)}
Pos(r, it) == CHOOSE i \in 1..Len(r.order[it.off]) : r.order[it.off][i] = it.q
Better(r, a, b) == a.off < b.off \/ (a.off = b.off /\ Pos(r, a) < Pos(r, b))
HasWinner(r, its) == Elig(r, its) # {}
Winner(r, its) == CHOOSE a \in Elig(r, its) : \A b \in Elig(r, its) \ {a} : Better(r, a, b)
RightBlock(r, off, q) == HasWinner(r, r.items) /\ Winner(r, r.items).off = off /\ Winner(r, r.items).q = q
RightCollector(r, c) == HasWinner(r, r.items) /\ Winner(r, r.items).c = c

(* ------------------------------ mechanism ------------------------------ *)
VARIABLE M
Init == M = [r |-> None, todo |-> {}, seen |-> {}, best |-> None, now |-> 0, chosen |-> None]
Serve(r) == M.r = None /\ M' = [M EXCEPT !.r = r, !.todo = r.items, !.seen = {}, !.best = None, !.chosen = None]
\* one report item is processed: the code's comparison (slot first, then quality), binding checked last
Recv(it) == /\ M.r # None /\ M.chosen = None /\ it \in M.todo
            /\ LET over == it.q \in Over(M.r, it.off)
                   improves == M.best = None \/ Better(M.r, it, M.best)
               IN M' = [M EXCEPT !.todo = @ \ {it}, !.seen = @ \cup {it},
                                 !.best = IF over /\ improves /\ it.bound THEN it ELSE @]
Tick == M.now < W + 1 /\ M' = [M EXCEPT !.now = @ + 1]
\* the ticker: the best item's slot has come
Finalise == /\ M.r # None /\ M.chosen = None /\ M.best # None /\ M.now >= M.best.off
            /\ M' = [M EXCEPT !.chosen = M.best]
DecidedRight == M.chosen # None => HasWinner(M.r, M.seen) /\ M.chosen = Winner(M.r, M.seen)
NotBeforeSlot == M.chosen # None => M.now >= M.chosen.off
=============================================================================
