CONSTANTS
  I = 2
  T = 6
  Horizon = 16
SPECIFICATION Spec
INVARIANTS NoSpuriousDrop DeadPeerNoticed TwoPassiveSilentDropped DataIsNotEnough
CHECK_DEADLOCK FALSE
