CONSTANTS
  N = 8
  CkptRule = "end"
  PChoices <- SomeP8
  FChoices <- SomeF
SPECIFICATION Spec
INVARIANTS PlottedIsComplete DoneIsRef DurableNotAhead AKeptUntilDone NeverStuck
CHECK_DEADLOCK FALSE
