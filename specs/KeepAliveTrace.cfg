CONSTANTS
  I = 2
  T = 6
  Horizon = 16
INIT TInit
NEXT TNext
CONSTRAINT Mark
POSTCONDITION Done
CHECK_DEADLOCK FALSE
