SPECIFICATION Spec
INVARIANT IndexSane
CHECK_DEADLOCK FALSE
