------------------------------- MODULE Gateway -------------------------------
(***************************************************************************)
(* Case analysis of the HTTP gateway (api/gateway.go, api/util.go,         *)
(* api/spaces.v1.go, api/spaces.v2.go).  Serves C20.  Three families of    *)
(* cases, each a finite set that TLC enumerates completely and the driver  *)
(* runs on the real code (the state graph is the test set):                *)
(*  admit   a remote address class under a configuration (whitelist, LAN   *)
(*          ranges, wildcard): a request is served only if the address is  *)
(*          loopback, whitelisted, in an enabled LAN range, or the         *)
(*          wildcard is set; a refused request gets 403 and the inner      *)
(*          handler does not run (one direction, as the property states)   *)
(*  render  a coin amount <<mass, maxwell>>: the exact canonical decimal   *)
(*          string, which parses back to the same amount; amounts above    *)
(*          the maximum supply and negative ones are refused               *)
(*  target  a listed workspace (key class, size, v1 / v2): address and     *)
(*          binding target are the chain library's for that key and size   *)
(*  listen  the gRPC server behind the gateway (api/server.go): the        *)
(*          gateway's admission is the only way in from another host, so   *)
(*          the gRPC listener itself is bound to the loopback address only *)
(***************************************************************************)
EXTENDS Integers, Sequences, FiniteSets, TLC

VARIABLE case, verdict
vars == <<case, verdict>>

(* ------------------------------ admit ------------------------------ *)
Lans == {"10", "172", "192"}
LoopClasses == {"lo4", "lo6", "lo4mapped"}
LanClasses == UNION {{<<l, p>> : p \in {"first", "last", "inside", "mapped", "below", "above"}} : l \in Lans}
AddrClasses == LoopClasses \cup {"lo4other", "wl4exact", "wl4mapped", "wl4neighbor", "wl6exact", "wl6neighbor", "public4", "public6",
                                 "hostless", "noport", "emptyaddr", "garbage"}
LanName(l, p) == "lan" \o l \o p
AllAddr == AddrClasses \cup {LanName(c[1], c[2]) : c \in LanClasses}
InLan(a, l) == \E p \in {"first", "last", "inside", "mapped"} : a = LanName(l, p)

Qualifies(a, wl, lans, wildcard) ==
  \/ wildcard
  \/ a \in LoopClasses \cup {"lo4other"}
  \/ a \in {"wl4exact", "wl4mapped"} /\ "v4" \in wl
  \/ a = "wl6exact" /\ "v6" \in wl
  \/ \E l \in lans : InLan(a, l)

\* junk: the configured whitelist ("wl") or LAN list ("lan") additionally holds an entry that is not an IP address / not
\* a LAN name; it admits nobody (the configuration may be refused as a whole)
AdmitCases == {[kind |-> "admit", addr |-> a, wl |-> w, lans |-> ls, wildcard |-> x, junk |-> j] :
                  a \in AllAddr, w \in SUBSET {"v4", "v6"}, ls \in {{}, {"10"}, {"172"}, {"192"}, Lans}, x \in BOOLEAN, j \in {"none", "wl", "lan"}}

(* ------------------------------ render ------------------------------ *)
MaxMass == 206438400          \* consensus.MaxMass; one MASS = 10^8 maxwell
Digit(d) == SubSeq("0123456789", d + 1, d + 1)
RECURSIVE Dec(_)
Dec(n) == IF n < 10 THEN Digit(n) ELSE Dec(n \div 10) \o Digit(n % 10)
\* the fraction: eight digits, trailing zeros dropped
RECURSIVE FracDigits(_, _)
FracDigits(m, width) == IF width = 0 THEN "" ELSE FracDigits(m \div 10, width - 1) \o Digit(m % 10)
RECURSIVE Strip(_, _)
Strip(m, width) == IF m % 10 = 0 /\ width > 1 THEN Strip(m \div 10, width - 1) ELSE <<m, width>>
Frac(m) == IF m = 0 THEN "" ELSE LET s == Strip(m, 8) IN "." \o FracDigits(s[1], s[2])
InRange(mass, mw) == mass >= 0 /\ (mass < MaxMass \/ (mass = MaxMass /\ mw = 0))
Render(mass, mw) == Dec(mass) \o Frac(mw)

Masses == {0, 1, 9, 10, 99, 100, 101, 999999, 1000000, 20999999, 206438399, 206438400, 206438401, 999999999}
Maxwells == {0, 1, 9, 10, 11, 100, 99999999, 10000000, 12345678, 50000000, 1000, 90000000, 5}
RenderCases == {[kind |-> "render", mass |-> a, mw |-> b, neg |-> FALSE] : a \in Masses, b \in Maxwells}
               \cup {[kind |-> "render", mass |-> a, mw |-> b, neg |-> TRUE] : a \in {0, 1, 206438400}, b \in {1, 0}}

(* ------------------------------ target ------------------------------ *)
TargetCases == {[kind |-> "target", api |-> "v1", key |-> k, size |-> s] : k \in {"k1", "k2", "k3"}, s \in {24, 26, 28, 30, 32, 34, 36, 38, 40}}
          \cup {[kind |-> "target", api |-> "v2", key |-> k, size |-> s] : k \in {"k1", "k2", "k3"}, s \in {32, 33, 34, 35}}

(* ------------------------------ listen ------------------------------ *)
ListenCases == {[kind |-> "listen", server |-> "grpc"]}

Cases == AdmitCases \cup RenderCases \cup TargetCases \cup ListenCases
NoCase == [kind |-> "none"]

\* what the specification fixes for a case
Expect(c) ==
  CASE c.kind = "admit"  -> [mayServe |-> Qualifies(c.addr, c.wl, c.lans, c.wildcard)]
    [] c.kind = "render" -> IF c.neg \/ ~InRange(c.mass, c.mw) THEN [ok |-> FALSE, text |-> ""]
                            ELSE [ok |-> TRUE, text |-> Render(c.mass, c.mw)]
    [] c.kind = "target" -> [same |-> TRUE]
    [] c.kind = "listen" -> [bound |-> {"lo4"}]

Init == case = NoCase /\ verdict = NoCase
Next == \E c \in Cases : case = NoCase /\ case' = c /\ verdict' = Expect(c)
Spec == Init /\ [][Next]_vars

\* the configured origins are exactly the documented ones: nothing outside loopback / whitelist / enabled LAN qualifies
\* without the wildcard
OnlyConfigured == case.kind = "admit" /\ verdict.mayServe /\ ~case.wildcard =>
    \/ case.addr \in LoopClasses \cup {"lo4other"} \/ case.addr \in {"wl4exact", "wl4mapped", "wl6exact"}
    \/ \E l \in case.lans : InLan(case.addr, l)
\* canonical: no leading zero, no trailing zero in the fraction, no bare point
Canonical == case.kind = "render" /\ verdict.ok => LET t == verdict.text IN
    /\ Len(t) >= 1 /\ (Len(t) > 1 /\ SubSeq(t, 1, 1) = "0" => SubSeq(t, 2, 2) = ".")
    /\ SubSeq(t, Len(t), Len(t)) # "." /\ (case.mw # 0 => SubSeq(t, Len(t), Len(t)) # "0")
=============================================================================
