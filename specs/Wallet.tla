------------------------------- MODULE Wallet -------------------------------
(***************************************************************************)
(* Contract of the HD keystore wallet (poc/wallet: KeystoreManagerForPoC   *)
(* on a LevelDB store, PoCWallet open/close).                              *)
(* Serves C01 C02 C03 C04 C05 C06 C12 C14.                                 *)
(*                                                                         *)
(* The state is what a user can rely on, per wallet store w:               *)
(*   ks[w][s]    the keystore derived from seed s: remark and the number   *)
(*               of keys issued on the external (plot keys) and internal   *)
(*               branch - or NoKs                                          *)
(*   priv[w]     THE private passphrase (one for all keystores of w)       *)
(*   pub[w]      the public passphrase the store opens with                *)
(*   up, unlocked  the running instance                                    *)
(*   files       exported keystore files (abstract records, tamper mark)   *)
(* There is deliberately no second "in-memory" copy: C02/C12 say that the  *)
(* running instance and an instance opened on the same store must both     *)
(* show exactly this state at every quiescent point, and the conformance   *)
(* driver logs both projections after every call.                          *)
(*                                                                         *)
(* Every public call is an operation record op = [t |-> type, args...];    *)
(* Ok(S, op) says whether it succeeds and Eff(S, op) what it does.  A      *)
(* failed call changes nothing.  Faults (C12) wrap a mutating call:        *)
(*   failwrite / failcommit : call returns an error, state unchanged       *)
(*   crashbefore            : process dies before commit: state unchanged  *)
(*   crashafter             : process dies after commit: full effect       *)
(* and after a crash the instance is restarted (locked).                   *)
(*                                                                         *)
(* Mirrored details of the code that no property promises otherwise (see   *)
(* DESIGN.md 11): with no keystore there is no passphrase at all (Open     *)
(* accepts any well-formed public passphrase, Unlock accepts anything,     *)
(* ChangePub does not check the old one); Unlock(current) on an already    *)
(* unlocked wallet may report an error but leaves it unlocked; GenKey      *)
(* picks any keystore.                                                     *)
(***************************************************************************)
EXTENDS Naturals, Sequences, FiniteSets, TLC

CONSTANTS Wallets,       \* wallet stores
          Seeds,         \* valid seeds; the keystore id is a function of the seed
          Pass,          \* passphrase values callers may supply (private and public ones alike)
          BadPass,       \* subset of Pass that is ill-formed
          Remarks,       \* remark strings, "" = no remark
          MaxIdx,        \* bound on keys per branch
          FileIds,       \* names for exported files
          TamperFields,  \* JSON fields of an exported file that can be corrupted
          WithObservers  \* include the read-only calls (Sign, Ordinal) in the environment

VARIABLE S
(* S = [ks |-> [Wallets -> [Seeds -> NoKs or [remark, ext, int]]],
        priv |-> [Wallets -> Pass \cup {NoPass}], pub |-> [Wallets -> Pass],
        up |-> [Wallets -> BOOLEAN], unlocked |-> [Wallets -> BOOLEAN],
        files |-> [FileIds -> NoFile or [seed, remark, ext, int, sealed, tamper]]] *)

NoKs   == [none |-> TRUE]
NoFile == [none |-> TRUE]
NoPass == "nopass"
WF(p)  == p \in Pass \ BadPass

Present(s, w)  == {x \in Seeds : s.ks[w][x] # NoKs}
HasKs(s, w)    == Present(s, w) # {}
Has(s, w, x)   == x \in Seeds /\ s.ks[w][x] # NoKs
Count(k, b)    == IF b = 0 THEN k.ext ELSE k.int
Issued(s, w, x, b, i) == Has(s, w, x) /\ i < Count(s.ks[w][x], b)
Mutating == {"NewKs", "NextAddr", "GenKey", "Remark", "ChangePriv", "ChangePub", "Delete", "Import"}

InitS == [ks |-> [w \in Wallets |-> [x \in Seeds |-> NoKs]],
          priv |-> [w \in Wallets |-> NoPass],
          pub |-> [w \in Wallets |-> CHOOSE p \in Pass : WF(p)],
          up |-> [w \in Wallets |-> FALSE],
          unlocked |-> [w \in Wallets |-> FALSE],
          files |-> [f \in FileIds |-> NoFile]]
Init == S = InitS

(* ------------------------------------------------------------------ Ok *)
ImportNew(op) == IF op.new = "" THEN op.old ELSE op.new

Ok(s, op) ==
  CASE op.t = "Open"   -> ~s.up[op.w] /\ WF(op.q) /\ (HasKs(s, op.w) => op.q = s.pub[op.w])
    [] op.t = "Close"  -> s.up[op.w]
    [] op.t = "NewKs"  -> /\ WF(op.p) /\ op.p # s.pub[op.w]
                          /\ (HasKs(s, op.w) => op.p = s.priv[op.w])
                          /\ op.s \in Seeds /\ s.ks[op.w][op.s] = NoKs
    [] op.t = "NextAddr" -> Has(s, op.w, op.s)
    [] op.t = "GenKey"   -> HasKs(s, op.w)
    [] op.t = "Remark"   -> Has(s, op.w, op.s)
    [] op.t = "ChangePriv" -> /\ WF(op.new) /\ op.new # s.pub[op.w] /\ op.new # op.old
                              /\ (HasKs(s, op.w) => op.old = s.priv[op.w])
    [] op.t = "ChangePub"  -> /\ WF(op.new) /\ op.new # op.old
                              /\ (HasKs(s, op.w) => op.new # s.priv[op.w] /\ op.old = s.pub[op.w])
    [] op.t = "Delete" -> Has(s, op.w, op.s) /\ op.p = s.priv[op.w]
    [] op.t = "Export" -> Has(s, op.w, op.s) /\ op.p = s.priv[op.w]
    [] op.t = "Import" -> /\ s.files[op.f] # NoFile
                          /\ WF(ImportNew(op)) /\ ImportNew(op) # s.pub[op.w]
                          /\ (HasKs(s, op.w) => ImportNew(op) = s.priv[op.w])
                          /\ op.old = s.files[op.f].sealed
                          /\ s.files[op.f].tamper = "none"
                          /\ s.ks[op.w][s.files[op.f].seed] = NoKs
    [] op.t = "Tamper" -> s.files[op.f] # NoFile /\ s.files[op.f].tamper = "none"
    [] op.t = "Lock"   -> TRUE
    [] op.t = "Unlock" -> ~HasKs(s, op.w) \/ op.p = s.priv[op.w]
    [] op.t = "Sign"   -> s.unlocked[op.w] /\ Issued(s, op.w, op.s, op.b, op.i)
    [] op.t = "Ordinal" -> Issued(s, op.w, op.s, op.b, op.i)
    [] OTHER -> FALSE

(* ----------------------------------------------------------------- Eff *)
SetKs(s, w, x, v) == [s EXCEPT !.ks[w][x] = v]
FixPriv(s, w, p)  == [s EXCEPT !.priv[w] = IF HasKs(s, w) THEN p ELSE NoPass]

Eff(s, op) ==
  CASE op.t = "Open"   -> [s EXCEPT !.up[op.w] = TRUE, !.unlocked[op.w] = FALSE, !.pub[op.w] = op.q]
    [] op.t = "Close"  -> [s EXCEPT !.up[op.w] = FALSE, !.unlocked[op.w] = FALSE]
    [] op.t = "NewKs"  -> FixPriv(SetKs(s, op.w, op.s, [remark |-> op.r, ext |-> 0, int |-> 0]), op.w, op.p)
    [] op.t = "NextAddr" -> IF op.b = 0 THEN [s EXCEPT !.ks[op.w][op.s].ext = @ + op.n]
                                        ELSE [s EXCEPT !.ks[op.w][op.s].int = @ + op.n]
    [] op.t = "GenKey"   -> [s EXCEPT !.ks[op.w][op.s].ext = @ + 1]
    [] op.t = "Remark"   -> [s EXCEPT !.ks[op.w][op.s].remark = op.r]
    [] op.t = "ChangePriv" -> FixPriv(s, op.w, op.new)
    [] op.t = "ChangePub"  -> [s EXCEPT !.pub[op.w] = op.new]
    [] op.t = "Delete" -> FixPriv(SetKs(s, op.w, op.s, NoKs), op.w, s.priv[op.w])
    [] op.t = "Export" -> [s EXCEPT !.files[op.f] =
                              [seed |-> op.s, remark |-> s.ks[op.w][op.s].remark, ext |-> s.ks[op.w][op.s].ext,
                               int |-> s.ks[op.w][op.s].int, sealed |-> s.priv[op.w], tamper |-> "none"]]
    [] op.t = "Import" -> LET f == s.files[op.f] IN
                          FixPriv(SetKs(s, op.w, f.seed, [remark |-> f.remark, ext |-> f.ext, int |-> f.int]),
                                  op.w, ImportNew(op))
    [] op.t = "Tamper" -> [s EXCEPT !.files[op.f].tamper = op.fld]
    [] op.t = "Lock"   -> [s EXCEPT !.unlocked[op.w] = FALSE]
    [] op.t = "Unlock" -> [s EXCEPT !.unlocked[op.w] = TRUE]
    [] OTHER -> s     \* Sign, Ordinal: observers

NeedsUp(op) == op.t \notin {"Open", "Tamper"}
Enabled(s, op) == IF op.t = "Tamper" THEN TRUE ELSE IF op.t = "Open" THEN ~s.up[op.w] ELSE s.up[op.w]

Restarted(s, w) == [s EXCEPT !.up[w] = TRUE, !.unlocked[w] = FALSE]

\* the state after operation op, called with fault `fault` that fired (or "none")
Apply(s, op, fault) ==
  CASE fault = "none" -> IF Ok(s, op) THEN Eff(s, op) ELSE s
    [] fault \in {"failwrite", "failcommit"} -> s
    [] fault = "crashbefore" -> Restarted(s, op.w)
    [] fault = "crashafter"  -> Restarted(Eff(s, op), op.w)

\* a fault can only fire in an operation that reaches its write transaction
\* (a passphrase change with no keystore writes nothing: there is nothing a crash could keep or lose)
CanFault(s, op) == op.t \in Mutating /\ Ok(s, op) /\ (op.t \in {"ChangePriv", "ChangePub"} => HasKs(s, op.w))

(* ------------------------------------------------------- environment *)
Branches == {0, 1}
Ops(s) ==
     [t : {"Open"}, w : Wallets, q : Pass]
  \cup [t : {"Close", "Lock"}, w : Wallets]
  \cup [t : {"NewKs"}, w : Wallets, p : Pass, s : Seeds \cup {"badseed"}, r : Remarks]
  \cup [t : {"NextAddr"}, w : Wallets, s : Seeds, b : Branches, n : 0..2]
  \cup [t : {"GenKey"}, w : Wallets, s : Seeds]
  \cup [t : {"Remark"}, w : Wallets, s : Seeds, r : Remarks]
  \cup [t : {"ChangePriv", "ChangePub"}, w : Wallets, old : Pass, new : Pass]
  \cup [t : {"Delete"}, w : Wallets, s : Seeds, p : Pass]
  \cup [t : {"Export"}, w : Wallets, s : Seeds, p : Pass, f : FileIds]
  \cup [t : {"Import"}, w : Wallets, f : FileIds, old : Pass, new : Pass \cup {""}]
  \cup [t : {"Tamper"}, f : FileIds, fld : TamperFields]
  \cup [t : {"Unlock"}, w : Wallets, p : Pass]
  \cup (IF WithObservers THEN [t : {"Sign", "Ordinal"}, w : Wallets, s : Seeds, b : Branches, i : 0..MaxIdx] ELSE {})

\* bounds of the environment: do not exceed MaxIdx, GenKey only names an existing owner (or any seed when
\* there is none), an export goes to an unused file name
Sensible(s, op) ==
  /\ Enabled(s, op)
  /\ (op.t = "NextAddr" /\ Has(s, op.w, op.s) => Count(s.ks[op.w][op.s], op.b) + op.n <= MaxIdx)
  /\ (op.t = "GenKey" => IF HasKs(s, op.w) THEN Has(s, op.w, op.s) /\ s.ks[op.w][op.s].ext < MaxIdx
                                             ELSE op.s = CHOOSE x \in Seeds : TRUE)
  /\ (op.t = "Export" => s.files[op.f] = NoFile)
  /\ (op.t = "Tamper" => Ok(s, op))              \* one corruption per file

Next == \E op \in Ops(S) : Sensible(S, op) /\
           \E fault \in {"none", "failwrite", "failcommit", "crashbefore", "crashafter"} :
              (fault # "none" => CanFault(S, op)) /\ S' = Apply(S, op, fault)

Spec == Init /\ [][Next]_S

(* ---------------------------------------------------------- properties *)
KsRec == [remark : Remarks, ext : 0..MaxIdx, int : 0..MaxIdx]
TypeOK ==
  /\ S.ks \in [Wallets -> [Seeds -> KsRec \cup {NoKs}]]
  /\ S.priv \in [Wallets -> Pass \cup {NoPass}] /\ S.pub \in [Wallets -> Pass]
  /\ S.up \in [Wallets -> BOOLEAN] /\ S.unlocked \in [Wallets -> BOOLEAN]

\* C03: exactly one private passphrase while any keystore exists; it is well-formed and differs from the public
\* one, so neither the public passphrase nor an ill-formed one ever unlocks, exports or deletes
OnePass == \A w \in Wallets : (HasKs(S, w) <=> S.priv[w] # NoPass)
                              /\ (HasKs(S, w) => WF(S.priv[w]) /\ S.priv[w] # S.pub[w] /\ WF(S.pub[w]))
LockedWhenDown == \A w \in Wallets : ~S.up[w] => ~S.unlocked[w]

\* C01: an accepted import restores exactly the exported record, under the importer's passphrase; a tampered
\* file, a wrong passphrase or a present keystore is refused (Ok) and a refused call changes nothing (Apply)
ImportRestores == [][\A w \in Wallets, x \in Seeds :
    S.ks[w][x] = NoKs /\ S'.ks[w][x] # NoKs /\ S'.ks[w][x] # [remark |-> S'.ks[w][x].remark, ext |-> 0, int |-> 0] =>
       \E f \in FileIds : /\ S.files[f] # NoFile /\ S.files[f].seed = x /\ S.files[f].tamper = "none"
                          /\ S'.ks[w][x] = [remark |-> S.files[f].remark, ext |-> S.files[f].ext, int |-> S.files[f].int]]_S

\* C06: counters only grow within a keystore's life, by exactly the number of keys handed out
Monotone == [][\A w \in Wallets, x \in Seeds : S.ks[w][x] # NoKs /\ S'.ks[w][x] # NoKs =>
                 S'.ks[w][x].ext >= S.ks[w][x].ext /\ S'.ks[w][x].int >= S.ks[w][x].int]_S

\* C02/C12: closing, opening and crashing never change what is stored
RestartKeeps == [][\A w \in Wallets : S.up[w] # S'.up[w] => S'.ks = S.ks /\ S'.priv = S.priv /\ S'.files = S.files]_S
=============================================================================
