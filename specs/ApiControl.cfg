CONSTANTS
  Spaces = {"w1", "w2", "w3"}
  Order <- MCOrder
  ChanCap = 2
SPECIFICATION ASpec
CONSTRAINT QueueTiny
INVARIANTS TwoParts MinerOverKeeper TypeOK AtMostOnePlotting PlottingIsCurrent PendingKnown
PROPERTIES StopAllQuiets MineStartsMiner MinerOffOnlyByStop LockRefusedWhileMining KeeperStartsUnlocked
CHECK_DEADLOCK FALSE
