------------------------------- MODULE WalletLin -------------------------------
(***************************************************************************)
(* Linearisability of the wallet API (C14).  A recorded concurrent history *)
(* (harness/cmd/walletdrv, concurrent mode) is a sequence of call and      *)
(* return events stamped by one atomic counter.  Wallet.tla is the         *)
(* sequential specification.  The history is accepted iff the effect of    *)
(* every call can be placed at some point between its call and its return  *)
(* (the silent step Lin) such that every returned result and output is the *)
(* sequential specification's, and the final state - running instance and  *)
(* reopened store - is the state after that linearisation.                 *)
(***************************************************************************)
EXTENDS Wallet, Json, SequencesExt

Traces == ndJsonDeserialize("traces.ndjson")
Threads == 0..4
VARIABLES pend, tr, l
lvars == <<S, pend, tr, l>>
ASSUME TLCSet(1, {}) /\ TLCSet(2, [i \in DOMAIN Traces |-> 0])

LBad == {"bad"}
None == [none |-> TRUE]
W1 == "w1"

\* the sequential operations a recorded call can stand for
OpsOfCall(e, s) ==
  CASE e.a = "NewKs"    -> {[t |-> "NewKs", w |-> W1, p |-> e.p, s |-> e.s, r |-> e.r]}
    [] e.a = "GenKey"   -> IF HasKs(s, W1) THEN {[t |-> "GenKey", w |-> W1, s |-> x] : x \in Present(s, W1)}
                           ELSE {[t |-> "GenKey", w |-> W1, s |-> CHOOSE x \in Seeds : TRUE]}
    [] e.a = "NextAddr" -> {[t |-> "NextAddr", w |-> W1, s |-> e.s, b |-> e.b, n |-> e.n]}
    [] e.a = "Remark"   -> {[t |-> "Remark", w |-> W1, s |-> e.s, r |-> e.r]}
    [] e.a = "Lock"     -> {[t |-> "Lock", w |-> W1]}
    [] e.a = "Unlock"   -> {[t |-> "Unlock", w |-> W1, p |-> e.p]}
    [] e.a = "Export"   -> {[t |-> "Delete", w |-> W1, s |-> e.s, p |-> e.p]}      \* same precondition; no effect (see Lin)
    [] e.a \in {"IsLocked", "List"} -> {[t |-> "Lock", w |-> W1]}                   \* observers (no effect, see Lin)
    [] e.a = "Sign"     -> {[t |-> "Sign", w |-> W1, s |-> e.s, b |-> 0, i |-> e.i]}
    [] e.a = "Ordinal"  -> {[t |-> "Ordinal", w |-> W1, s |-> e.s, b |-> 0, i |-> e.i]}

Observer(e) == e.a \in {"Export", "IsLocked", "List", "Sign", "Ordinal"}

TCall(e) == /\ e.ev = "call" /\ pend[e.t] = None
            /\ pend' = [pend EXCEPT ![e.t] = [e |-> e, lin |-> FALSE, pre |-> S, op |-> None]]
            /\ UNCHANGED S

Lin(t) == /\ pend[t] # None /\ ~pend[t].lin
          /\ \E op \in OpsOfCall(pend[t].e, S) :
                /\ S' = IF Observer(pend[t].e) THEN S ELSE Apply(S, op, "none")
                /\ pend' = [pend EXCEPT ![t] = [@ EXCEPT !.lin = TRUE, !.pre = S, !.op = op]]

TotalKeys(s) == LET P == Present(s, W1) IN
                IF P = {} THEN 0 ELSE LET f[Q \in SUBSET P] == IF Q = {} THEN 0 ELSE LET x == CHOOSE y \in Q : TRUE IN s.ks[W1][x].ext + s.ks[W1][x].int + f[Q \ {x}] IN f[P]

RetOK(e, p) == LET pre == p.pre op == p.op c == p.e IN
  /\ \/ c.a \in {"IsLocked", "List", "Ordinal"} /\ e.res = "ok"
     \/ c.a \notin {"IsLocked", "List", "Ordinal"} /\ e.res = (IF Ok(pre, op) THEN "ok" ELSE "err")
     \/ c.a = "Unlock" /\ Ok(pre, op) /\ pre.unlocked[W1] /\ e.res = "err"          \* mirrored detail (see Wallet.tla)
     \/ c.a = "Sign" /\ "foreign" \in DOMAIN e.out /\ e.res = "err"                  \* a key the wallet never issued
  /\ CASE c.a = "NewKs"    -> e.res = "ok" => e.out.id = c.s
       [] c.a = "GenKey"   -> e.res = "ok" => e.out.s = op.s /\ e.out.idx = pre.ks[W1][op.s].ext
       [] c.a = "NextAddr" -> e.res = "ok" => e.out.idx = [i \in 1..c.n |-> Count(pre.ks[W1][c.s], c.b) + i - 1]
       [] c.a = "IsLocked" -> e.out.locked = ~pre.unlocked[W1]
       [] c.a = "List"     -> e.out.count = TotalKeys(pre)
       [] c.a = "Sign"     -> e.res = "ok" => e.out.verifies = TRUE
       [] c.a = "Ordinal"  -> e.out.known = TRUE => (e.out.found = Issued(pre, W1, c.s, 0, c.i) /\ (e.out.found => e.out.idx = c.i))
       [] OTHER -> TRUE

TRet(e) == /\ e.ev = "ret" /\ pend[e.t] # None /\ pend[e.t].lin
           /\ RetOK(e, pend[e.t])
           /\ pend' = [pend EXCEPT ![e.t] = None] /\ UNCHANGED S

Range0(n) == {i \in 0..MaxIdx : i < n}
SeqIs(q, n) == Len(q) = n /\ ToSet(q) = Range0(n)
KsOK(p, s) == /\ DOMAIN p = Present(s, W1)
              /\ \A x \in Present(s, W1) : p[x].remark = s.ks[W1][x].remark /\ SeqIs(p[x].ext, s.ks[W1][x].ext) /\ SeqIs(p[x].int, s.ks[W1][x].int)
TFinal(e) == /\ e.ev = "final" /\ \A t \in Threads : pend[t] = None
             /\ e.keyok = TRUE
             /\ KsOK(e.run[W1].ks, S) /\ e.run[W1].locked = ~S.unlocked[W1]
             /\ KsOK(e.reo[W1].ks, S) /\ "err" \notin DOMAIN e.reo[W1] /\ "sigbad" \notin DOMAIN e.reo[W1]
             /\ (HasKs(S, W1) => ToSet(e.reo[W1].unlocks) = {S.priv[W1]} /\ ToSet(e.reo[W1].opens) = {S.pub[W1]})
             /\ \A x \in Present(S, W1) : e.reo[W1].next[x].ext = S.ks[W1][x].ext /\ e.reo[W1].next[x].int = S.ks[W1][x].int
             /\ UNCHANGED <<S, pend>>

\* the wallet is opened with q1 before the first recorded call
LInit == /\ Init /\ tr \in DOMAIN Traces /\ l = 1 /\ pend = [t \in Threads |-> None]
LStart == [ks |-> [w \in Wallets |-> [x \in Seeds |-> NoKs]], priv |-> [w \in Wallets |-> NoPass], pub |-> [w \in Wallets |-> "q1"],
           up |-> [w \in Wallets |-> w = W1], unlocked |-> [w \in Wallets |-> FALSE], files |-> [f \in FileIds |-> NoFile]]
LInit2 == S = LStart /\ tr \in DOMAIN Traces /\ l = 1 /\ pend = [t \in Threads |-> None]

LNext == \/ /\ l <= Len(Traces[tr].ev)
            /\ LET e == Traces[tr].ev[l] IN TCall(e) \/ TRet(e) \/ TFinal(e)
            /\ l' = l + 1 /\ UNCHANGED tr
         \/ \E t \in Threads : Lin(t) /\ UNCHANGED <<tr, l>>

Mark == /\ (IF l - 1 > TLCGet(2)[tr] THEN TLCSet(2, [TLCGet(2) EXCEPT ![tr] = l - 1]) ELSE TRUE)
        /\ (IF l = Len(Traces[tr].ev) + 1 THEN TLCSet(1, TLCGet(1) \cup {tr}) ELSE TRUE)
Done == PrintT(<<"ACCEPTED", ToJson(TLCGet(1))>>) /\ PrintT(<<"HW", ToJson(TLCGet(2))>>)
=============================================================================
