------------------------------- MODULE Miner2MC -------------------------------
EXTENDS Miner2
Perms == {<<"qa", "qb", "qc">>, <<"qb", "qc", "qa">>, <<"qc", "qa", "qb">>, <<"qa", "qc", "qb">>, <<"qb", "qa", "qc">>, <<"qc", "qb", "qa">>}
\* every assignment of the three qualities to slots 0..1 and collectors, every binding pattern, every order and level
Rounds == {[items |-> {[q |-> q, c |-> cs[q], off |-> os[q], bound |-> bs[q]] : q \in Quals},
            order |-> [o \in Slots |-> SelectSeq(pm, LAMBDA q : os[q] = o)], nover |-> nv] :
             cs \in [Quals -> Cols], os \in [Quals -> Slots], bs \in [Quals -> BOOLEAN], pm \in Perms, nv \in [Slots -> 0..2]}
Next == (\E r \in Rounds : Serve(r)) \/ (\E it \in M.todo : Recv(it)) \/ Tick \/ Finalise
Spec == Init /\ [][Next]_M
=============================================================================
