------------------------------- MODULE KeeperTrace -------------------------------
(***************************************************************************)
(* Trace validation for Keeper.tla.  One scenario per line of              *)
(* traces.ndjson, recorded by harness/cmd/keeperdrv from the real keeper   *)
(* with its plotter goroutine under scheduler gates.  Events:              *)
(*   Init                     the initial states                           *)
(*   Act(w, act) / Bulk(flags, act)   API calls with their results         *)
(*   Start / StopKeeper                                                    *)
(*   P(gate)       the plotter was let go and arrived at `gate`            *)
(*   PlotEnd(out)  the scripted Plot() was ended                           *)
(* and after each: the states by every query, the spaces offered to the    *)
(* miner, index membership, channel and queue length, files.               *)
(* Known deviations are the disjuncts named KF_.                           *)
(***************************************************************************)
EXTENDS Keeper, Json, SequencesExt

Traces == ndJsonDeserialize("traces.ndjson")
VARIABLES tr, l
tvars == <<K, tr, l>>
ASSUME TLCSet(1, {}) /\ TLCSet(2, [i \in DOMAIN Traces |-> 0]) /\ TLCSet(3, {})
Flag(tag) == TLCSet(3, TLCGet(3) \cup {<<tr, tag>>})

TOrder == <<"w1", "w2", "w3">>
FQ == [ r |-> {"registered"},
        p |-> {"plotting"},
        rp |-> {"registered", "plotting"},
        d |-> {"ready"},
        rd |-> {"registered", "ready"},
        pd |-> {"plotting", "ready"},
        rpd |-> {"registered", "plotting", "ready"},
        m |-> {"mining"},
        rm |-> {"registered", "mining"},
        pm |-> {"plotting", "mining"},
        rpm |-> {"registered", "plotting", "mining"},
        dm |-> {"ready", "mining"},
        rdm |-> {"registered", "ready", "mining"},
        pdm |-> {"plotting", "ready", "mining"},
        rpdm |-> {"registered", "plotting", "ready", "mining"} ]

KnownSet(k) == {w \in Spaces : Known(k, w)}
V2(e) == "v2" \in DOMAIN e
BookOK(e, k) ==
  /\ \A w \in Spaces : IF k.st[w] = "gone" THEN w \notin DOMAIN e.idx /\ w \notin ToSet(e.inall)
                       ELSE w \in DOMAIN e.idx /\ e.idx[w] = <<k.st[w]>> /\ w \in ToSet(e.inall)      \* exactly one state
  /\ e.chanlen = Len(k.chan) /\ e.queuelen = BagCardinality(k.queue)
  /\ \A w \in Spaces : e.files[w] = k.files[w]                                                \* C11: only Delete deletes
ProjOK(e, k) ==
  /\ DOMAIN e.st = KnownSet(k)
  /\ \A w \in KnownSet(k) : e.st[w] = k.st[w]
  /\ ToSet(e.list) = KnownSet(k) /\ Len(e.list) = Cardinality(KnownSet(k))
  /\ e.agree = TRUE
  /\ \A n \in DOMAIN FQ : ToSet(e.fq[n]) = {w \in KnownSet(k) : k.st[w] \in FQ[n]}          \* C09: queries and filters agree
  /\ ("offered" \in DOMAIN e => ToSet(e.offered) = {w \in KnownSet(k) : k.st[w] = "mining"})  \* C09: only mining spaces are offered
  \* the bookkeeping is visible only where a hook shows it (the capacity keeper; the chia keeper's traces carry v2)
  /\ (IF V2(e) THEN TRUE ELSE BookOK(e, k))
  /\ e.running = k.run

Pairs(r) == {<<x[1], x[2]>> : x \in ToSet(r)}
EndsPlot(k, k2) == k.plt.pc = "plotting" /\ k2.plt.pc = "plotret"

\* F-C09a: StopWS / RemoveWS / DeleteWS clear the plotter queue but not the channel: a request that the plotter has
\* not yet received survives the call
KeepsChan(k, k2) == [k2 EXCEPT !.chan = k.chan]

Step(e) ==
  \/ /\ e.a = "Act" /\ ~Blocks(K, e.w, e.act)
     /\ e.res = Res(K, e.w, e.act)
     /\ LET k2 == Act(K, e.w, e.act) IN
        /\ (("gate" \in DOMAIN e) <=> EndsPlot(K, k2))
        /\ ("gate" \in DOMAIN e => e.gate = "plotret")
        /\ \/ K' = k2
           \/ /\ e.act \in {"Stop", "Remove", "Delete"} /\ k2.chan # K.chan
              /\ K' = KeepsChan(K, k2) /\ Flag("C09-withdraw-keeps-channel-request")
  \/ /\ e.a = "Bulk" /\ e.res = "ok"
     /\ LET fl == ToSet(e.flags)
            k2 == Bulk(K, fl, e.act) IN
        /\ Pairs(e.results) = ToSet(BulkRes(K, fl, e.act))
        /\ (("gate" \in DOMAIN e) <=> EndsPlot(K, k2))
        /\ \/ K' = k2
           \/ /\ e.act \in {"Stop", "Remove", "Delete"} /\ k2.chan # K.chan
              /\ K' = KeepsChan(K, k2) /\ Flag("C09-withdraw-keeps-channel-request")
  \/ e.a = "Start" /\ ~K.run /\ e.res = "ok" /\ (IF V2(e) THEN TRUE ELSE e.gate = "start") /\ K' = StartK(K)
  \/ /\ e.a = "StopKeeper" /\ K.run /\ K.plt.pc # "popped" /\ e.res = "ok"
     \* requests still in the channel are kept, or received and dropped with the queue (the plotter's select may
     \* take either branch): no property says which
     /\ (K' = StopK(K) \/ K' = [StopK(K) EXCEPT !.chan = <<>>])
  \/ /\ e.a = "P"
     /\ \/ e.gate = "drained" /\ CanRecv(K) /\ K' = Recv(K)
        \/ e.gate = "popped" /\ CanPop(K, e.w, e.m) /\ K' = Pop(K, e.w, e.m)
        \/ e.gate = "inplot" /\ CanStep1(K) /\ K.st[K.plt.w] = "registered" /\ e.w = K.plt.w /\ K' = Step1(K)
        \/ e.gate = "loop" /\ CanStep1(K) /\ K.st[K.plt.w] # "registered" /\ K' = Step1(K)
        \/ e.gate = "loop" /\ CanStep3(K) /\ K' = Step3(K)
        \/ e.gate = "idle" /\ K.run /\ K.plt.pc = "idle" /\ BagCardinality(K.queue) = 0 /\ K' = K
  \/ e.a = "PlotEnd" /\ e.gate = "plotret" /\ CanPlotEnd(K) /\ K' = PlotEnd(K, e.out)

TInit == /\ tr \in DOMAIN Traces /\ l = 2
         /\ LET e == Traces[tr].ev[1] IN
            /\ e.a = "Init" /\ e.order = TOrder
            /\ K = [st |-> [w \in Spaces |-> e.st[w]], using |-> [w \in Spaces |-> TRUE], chan |-> <<>>, queue |-> EmptyBag,
                    plt |-> Idle, run |-> FALSE, files |-> [w \in Spaces |-> TRUE]]
\* a step after which the keeper no longer answers (call or projection queries never returned, panic, process death)
\* is never a step of the specification
Wedged(e) == ("res" \in DOMAIN e /\ e.res \in {"hang", "panic", "died"}) \/ ("gate" \in DOMAIN e /\ e.gate = "stuck")
TNext == /\ l <= Len(Traces[tr].ev)
         /\ ~Wedged(Traces[tr].ev[l])
         /\ Step(Traces[tr].ev[l]) /\ ProjOK(Traces[tr].ev[l], K')
         /\ l' = l + 1 /\ UNCHANGED tr

Mark == /\ (IF l - 1 > TLCGet(2)[tr] THEN TLCSet(2, [TLCGet(2) EXCEPT ![tr] = l - 1]) ELSE TRUE)
        /\ (IF l = Len(Traces[tr].ev) + 1 THEN TLCSet(1, TLCGet(1) \cup {tr}) ELSE TRUE)
Done == /\ PrintT(<<"ACCEPTED", ToJson(TLCGet(1))>>) /\ PrintT(<<"HW", ToJson(TLCGet(2))>>)
        /\ PrintT(<<"FLAGS", ToJson(TLCGet(3))>>)
=============================================================================
