CONSTANTS
  Dirs <- MCDirs
  MaxOrd = 7
  Targets <- MCTargets
SPECIFICATION Spec
INVARIANTS MechanismGood OrdinalsUnique
CHECK_DEADLOCK FALSE
