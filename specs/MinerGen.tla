------------------------------- MODULE MinerGen -------------------------------
(* Round generator for Miner.tla: chain templates, keeper proof lists, per-slot target levels, competing tips, stop
   requests and ProcessBlock answers.  The last record of a behaviour is a sentinel (the simulation prints one
   behaviour per candidate last step); the check drops it. *)
EXTENDS Integers, Sequences, TLC, Json
CONSTANT GenLen
VARIABLE hist
RS(X) == RandomElement(IF Len(hist) >= 0 THEN X ELSE {})
Names == <<"a", "b", "c", "d", "e">>
Perms3 == {<<1, 2, 3>>, <<2, 3, 1>>, <<3, 1, 2>>, <<3, 2, 1>>, <<1, 3, 2>>, <<2, 1, 3>>}
\* a proof list: 2-4 distinct proofs in some order, mostly fine
St == RS({"ok", "ok", "ok", "unbound", "err", "unverif"} \ (IF RS(1..4) = 1 THEN {} ELSE {"unverif"}))
ProofList == LET n == RS(2..4) off == RS(0..1) IN [i \in 1..n |-> [k |-> Names[i + off], st |-> St]]
Shuffle(s) == IF Len(s) = 3 THEN LET p == RS(Perms3) IN <<s[p[1]], s[p[2]], s[p[3]]>>
              ELSE IF RS(1..2) = 1 THEN s ELSE [i \in 1..Len(s) |-> s[Len(s) + 1 - i]]
\* target levels per slot offset: "late" keeps the first slots closed so that a tip or stop can come first
NOver(n, late) == [o \in 1..4 |-> IF late /\ o <= 3 THEN 0 ELSE RS({0, 0, 1, 1, 2, n})]
Round(i) ==
  LET ps == Shuffle(ProofList)
      kind == RS({"plain", "plain", "plain", "tipearly", "tip", "same", "switched", "stop", "stopearly"})
      late == kind \in {"tipearly", "stopearly"}
  IN [a |-> "Round", h |-> 100 + i - (IF i > 1 /\ RS(1..4) = 1 THEN 1 ELSE 0), prev |-> "n" \o ToString(i),
      s0 |-> IF late THEN RS({-1, 0}) ELSE RS({-2, -1, 0, 0, 1}),
      proofs |-> ps, nover |-> NOver(Len(ps), late),
      tip |-> CASE kind \in {"tipearly", "tip"} -> "better" [] kind = "same" -> "same" [] kind = "switched" -> "switched" [] OTHER -> "none",
      tipms |-> IF kind = "tipearly" THEN RS({300, 900, 1500}) ELSE RS({300, 1500, 2500, 4000}),
      res |-> RS({"accept", "accept", "accept", "reject", "orphan"}), again |-> RS({0, 0, 1}),
      stopms |-> CASE kind = "stopearly" -> RS({300, 900, 1500}) [] kind = "stop" -> RS({500, 2000, 4000}) [] OTHER -> -1]
GInit == hist = <<>>
GNext == \E i \in 1..3 : hist' = Append(hist, Round(Len(hist) + 1))
Emit == Len(hist) = GenLen => PrintT(<<"BEHAVIOUR", ToJson(hist)>>)
=============================================================================
