---------------------------- MODULE BucketStoreGen ----------------------------
(***************************************************************************)
(* Behaviour generator for BucketStore: the same actions, a history        *)
(* variable that records each action with its arguments, and an            *)
(* environment that aims its calls at existing buckets and at a few decoys *)
(* (missing, ill-named) so that most calls do something.  Used with        *)
(* `tlc -simulate` (random behaviours of GenLen actions) and with BFS      *)
(* under CONSTRAINT Len(hist) <= GenLen (all behaviours of that length).   *)
(***************************************************************************)
EXTENDS BucketStore, Json

CONSTANTS GenLen, Exhaustive
VARIABLE hist

\* adversarial alphabet: x (plain), b (first letter of the backend's bucket-index keys),
\* 1 and 2 (depth digits of the backend's key prefixes), _ (its separator), N (a NUL / 0xff byte),
\* L (a run of 257 bytes: too long for a name)
GNames == {<<"x">>, <<"b">>, <<"1">>, <<"x", "b">>, <<"x", "1">>, <<"N">>,
           <<>>, <<"_">>, <<"x", "_", "b">>, <<"L">>}
GKeys  == {<<"k">>, <<"x">>, <<"b">>, <<"k", "_">>, <<"_">>, <<"_", "k">>, <<"x", "_", "k">>, <<"b", "_", "k">>,
           <<"b", "_", "2", "_", "x", "_", "b">>, <<"2", "_", "x", "_", "b", "_", "k">>, <<"1", "_", "x">>,
           <<"N">>, <<"k", "N">>, <<"L">>, <<>>}
GPre   == {<<>>, <<"k">>, <<"x">>, <<"b">>, <<"x", "_">>, <<"b", "_">>, <<"_">>, <<"N">>}
GVals  == {"v1", "v2", "v3", ""}
MCBad == {"_", "L"}
Decoys == {<<<<"x">>>>, <<<<"x">>, <<"b">>>>, <<<<"x", "_", "b">>>>, <<<<"b">>, <<"x">>>>, <<<<"x", "b">>>>}

Pick(S) == IF Exhaustive THEN S ELSE {RandomElement(S)}
Log(r) == hist' = Append(hist, r)

\* aim at existing buckets four times out of five, at decoys otherwise
Aim(S)   == IF Exhaustive THEN S \cup Decoys
            ELSE IF S = {} \/ RandomElement(1..8) = 1 THEN Decoys ELSE S
TxPaths  == IF tx = NoTx THEN Decoys ELSE Aim(tx.b)
CmPaths  == Aim(committed.b)

GInit == Init /\ hist = <<>>

Fresh == tx # NoTx /\ tx.b = {}          \* nothing to aim at yet: create buckets first
Busy  == tx # NoTx /\ tx.b # {}
ValidNames == {n \in Names : ValidName(n)}
\* three names out of four are valid ones
\* (refers to hist so that TLC does not evaluate it once as a constant)
PickName == IF Exhaustive THEN Names
            ELSE IF RandomElement(1..(4 + 0 * Len(hist))) = 1 THEN {RandomElement(Names)} ELSE {RandomElement(ValidNames)}

\* names of the buckets that exist directly under p in the open transaction
Kids(p) == IF tx = NoTx THEN {} ELSE Children(tx, p)
\* valid names that extend, or are extended by, the name of a bucket already under p (the backend's flat keys of
\* such siblings share a prefix)
Kin(p) == {n \in ValidNames : \E c \in Kids(p) : n # c /\ (IsPrefix(n, c) \/ IsPrefix(c, n))}
\* a new bucket: two times out of three next to a sibling whose name is prefix-related, when there is one
NewName(p) == IF Exhaustive THEN Names
              ELSE IF Kin(p) # {} /\ RandomElement(1..3) # 1 THEN {RandomElement(Kin(p))} ELSE PickName
\* buckets under p whose name is a proper prefix of a sibling's name
Stems(p) == {c \in Kids(p) : \E c2 \in Kids(p) : c2 # c /\ IsPrefix(c, c2)}
\* a bucket removal: mostly of a bucket that exists, and among those every second time of a stem
DelName(p) == IF Exhaustive THEN Names
              ELSE IF Stems(p) # {} /\ RandomElement(1..2) = 1 THEN {RandomElement(Stems(p))}
              ELSE IF Kids(p) # {} /\ RandomElement(1..4) # 1 THEN {RandomElement(Kids(p))} ELSE PickName

GNext ==
    \/ \E w \in 1..4 : Begin /\ Log([a |-> "Begin"])
    \/ \E w \in 1..2 : Busy /\ Commit /\ Log([a |-> "Commit"])
    \/ Rollback /\ Log([a |-> "Rollback"])
    \/ Reopen /\ Log([a |-> "Reopen"])
    \/ \E w \in 1..3 : \E n \in PickName : CreateTop(n) /\ Log([a |-> "CreateTop", n |-> n])
    \/ \E w \in 1..5 : \E p \in Pick(TxPaths) : \E n \in NewName(p) :
          Busy /\ Len(p) < MaxDepth /\ NewBucket(p, n) /\ Log([a |-> "NewBucket", p |-> p, n |-> n])
    \/ \E w \in 1..2 : \E p \in Pick(TxPaths) : \E n \in DelName(p) :
          Busy /\ Len(p) < MaxDepth /\ DeleteBucket(p, n) /\ Log([a |-> "DeleteBucket", p |-> p, n |-> n])
    \/ \E w \in 1..5 : \E p \in Pick(TxPaths), k \in Pick(Keys), v \in Pick(Vals) :
          Busy /\ Put(p, k, v) /\ Log([a |-> "Put", p |-> p, k |-> k, v |-> v])
    \/ \E p \in Pick(TxPaths), k \in Pick(Keys) : Busy /\ Delete(p, k) /\ Log([a |-> "Delete", p |-> p, k |-> k])
    \/ \E w \in 1..2 : \E p \in Pick(TxPaths) : Busy /\ Clear(p) /\ Log([a |-> "Clear", p |-> p])
    \* observers inside the write transaction
    \/ \E p \in Pick(TxPaths), k \in Pick(Keys) : Busy /\ Observe /\ Log([a |-> "Get", p |-> p, k |-> k])
    \/ \E p \in Pick(TxPaths), k \in Pick(ScanPrefixes) : Busy /\ Observe /\ Log([a |-> "Scan", p |-> p, k |-> k])
    \/ \E p \in Pick(TxPaths) : Busy /\ Observe /\ Log([a |-> "Names", p |-> p])
    \* observers in a read transaction (always enabled: no behaviour ends early)
    \/ \E p \in Pick(CmPaths), k \in Pick(Keys) : Observe /\ Log([a |-> "RGet", p |-> p, k |-> k])
    \/ \E p \in Pick(CmPaths), k \in Pick(ScanPrefixes) : Observe /\ Log([a |-> "RScan", p |-> p, k |-> k])

\* A second start (BucketStoreGenKin.cfg): the transaction already holds sibling buckets whose names extend one
\* another (x, xb, x1 under x), each with an entry - the arrangement in which the backend's flat keys of different
\* buckets share the longest prefixes.  hist holds the calls that build it, so the real store is driven the same way.
KX == <<"x">>  KXB == <<"x", "b">>  KX1 == <<"x", "1">>
GInitKin ==
    /\ committed = EmptyStore /\ opened = TRUE
    /\ tx = [b  |-> {<<KX>>, <<KX, KX>>, <<KX, KXB>>, <<KX, KX1>>},
             kv |-> {<< <<KX, KXB>>, <<"k">>, "v1" >>, << <<KX, KX>>, <<"k">>, "v2" >>, << <<KX, KX1>>, <<"x">>, "v3" >>}]
    /\ hist = << [a |-> "Begin"], [a |-> "CreateTop", n |-> KX],
                 [a |-> "NewBucket", p |-> <<KX>>, n |-> KX], [a |-> "NewBucket", p |-> <<KX>>, n |-> KXB],
                 [a |-> "NewBucket", p |-> <<KX>>, n |-> KX1],
                 [a |-> "Put", p |-> <<KX, KXB>>, k |-> <<"k">>, v |-> "v1"],
                 [a |-> "Put", p |-> <<KX, KX>>, k |-> <<"k">>, v |-> "v2"],
                 [a |-> "Put", p |-> <<KX, KX1>>, k |-> <<"x">>, v |-> "v3"] >>

GSpec == GInit /\ [][GNext]_<<vars, hist>>

Emit == Len(hist) = GenLen => PrintT(<<"BEHAVIOUR", ToJson(hist)>>)
Bounded == Len(hist) <= GenLen
=============================================================================
