------------------------------- MODULE PlotGen -------------------------------
(* Schedule generator for the plot driver: window sizes (in eighths of the table) for both passes, the windows at *)
(* which a graceful stop is requested - before the window is computed ("boundary") or when it has been computed   *)
(* and is about to be written ("inwrite") -, and whether the run is also traced for crash images.                 *)
EXTENDS Integers, Sequences, TLC, Json
CONSTANT GenLen
VARIABLE hist
RS(X) == RandomElement(IF Len(hist) >= 0 THEN X ELSE {})
Sizes == {<<8>>, <<1, 8>>, <<4, 4>>, <<3, 2, 8>>, <<1, 1, 1, 8>>, <<2, 5, 8>>, <<7, 8>>, <<1, 2, 3, 8>>, <<5, 1, 8>>, <<2, 2, 2, 2>>, <<1, 6, 1>>, <<3>>}
Stops == {<<>>, <<1>>, <<2>>, <<3>>, <<2, 4>>, <<1, 2, 3>>, <<4>>, <<5>>, <<3, 6>>, <<2, 3, 5, 7>>}
GInit == hist = <<>>
GNext == hist' = Append(hist, [a |-> "Plot", bl |-> RS({8, 9, 10, 11}), aw |-> RS(Sizes), bw |-> RS(Sizes), stops |-> RS(Stops), stopmode |-> RS({"boundary", "inwrite"}), crash |-> RS({TRUE, FALSE, FALSE})])
Emit == Len(hist) = GenLen => PrintT(<<"BEHAVIOUR", ToJson(hist)>>)
=============================================================================
