------------------------------- MODULE HDKeyTrace -------------------------------
(* Trace validation for HDKey.tla: every recorded program / mnemonic case must show what the specification fixes. *)
EXTENDS HDKey, Json
Traces == ndJsonDeserialize("traces.ndjson")
VARIABLES tr, l
ASSUME TLCSet(1, {}) /\ TLCSet(2, [i \in DOMAIN Traces |-> 0]) /\ TLCSet(3, {})
Flag(tag) == TLCSet(3, TLCGet(3) \cup {<<tr, tag>>})
KF == "C18-hardened-child-of-short-scalar"
\* every key of the path equals the formulae's key and Parse(Ser(k)) derives the same children as k - or (known
\* finding F-C18) every mismatch of this program stems from a hardened child of a parent whose scalar has a leading
\* zero byte
KeysOK(e) == \/ e.equalsBIP32 = TRUE /\ e.roundTripLaw = TRUE
             \/ "kf" \in DOMAIN e /\ e.kf = KF /\ Flag(KF)
DeriveOK(e, c, x) ==
    /\ e.master = x.master
    /\ (x.master => KeysOK(e) /\ e.neuterLaw = TRUE /\ e.hardFromPubRefused = TRUE /\ e.steps = Len(c.path))
    /\ (c.kind = "deep" => e.depth255 = TRUE /\ e.beyondRefused = TRUE)
Delta(e, c) == IF c.corrupt = "extraword" THEN 1 ELSE IF c.corrupt = "dropword" THEN -1
               ELSE IF c.corrupt = "emptysentence" THEN -e.words0 ELSE 0
MnemonicOK(e, c, x) ==
    /\ e.made = x.made
    /\ (x.made => e.back = x.back /\ e.words = (c.bits + c.bits \div 32) \div 11 + Delta(e, c))
Step(e) == LET c == e.frame x == Expect(c) IN
    /\ "panic" \notin DOMAIN e
    /\ IF c.kind = "mnemonic" THEN MnemonicOK(e, c, x) ELSE DeriveOK(e, c, x)
TInit == case = NoCase /\ verdict = NoCase /\ tr \in DOMAIN Traces /\ l = 1
TNext == /\ l <= Len(Traces[tr].ev) /\ Step(Traces[tr].ev[l])
         /\ l' = l + 1 /\ UNCHANGED <<tr, case, verdict>>
Mark == /\ (IF l - 1 > TLCGet(2)[tr] THEN TLCSet(2, [TLCGet(2) EXCEPT ![tr] = l - 1]) ELSE TRUE)
        /\ (IF l = Len(Traces[tr].ev) + 1 THEN TLCSet(1, TLCGet(1) \cup {tr}) ELSE TRUE)
Done == PrintT(<<"ACCEPTED", ToJson(TLCGet(1))>>) /\ PrintT(<<"HW", ToJson(TLCGet(2))>>) /\ PrintT(<<"FLAGS", ToJson(TLCGet(3))>>)
=============================================================================
