------------------------------- MODULE MinerMC -------------------------------
EXTENDS Miner
CONSTANTS RH, RS0
RS0all == {-1, 0, 1}
Sts == {"ok", "err", "unbound", "unverif"}
Lists == {<<"a", "b">>, <<"b", "a">>}
Rounds == {[h |-> h, prev |-> "n", s0 |-> s0, lst |-> l, st |-> st, order |-> [o \in Slots |-> SelectSeq(ord[o], LAMBDA p : st[p] # "err")], nover |-> nv] :
             h \in RH, s0 \in RS0, l \in Lists, st \in [Proofs -> Sts], ord \in [Slots -> Lists], nv \in [Slots -> 0..2]}
Next == \/ \E r \in Rounds : Serve(r)
        \/ Try \/ Tick \/ TipBetter \/ StopReq
        \/ \E res \in {"accept", "reject", "orphan"} : Submit(res)
Spec == Init /\ [][Next]_M
=============================================================================
