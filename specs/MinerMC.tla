------------------------------- MODULE MinerMC -------------------------------
EXTENDS Miner
CONSTANTS RH, RS0
RS0all == {-1, 0, 1}
Sts == {"ok", "err", "unbound", "unverif"}
Lists == {<<"a", "b">>, <<"b", "a">>}
Rounds == {[h |-> h, prev |-> "n", s0 |-> s0, lst |-> l, st |-> st, order |-> [o \in Slots |-> SelectSeq(ord[o], LAMBDA p : st[p] # "err")], nover |-> nv] :
             h \in RH, s0 \in RS0, l \in Lists, st \in [Proofs -> Sts], ord \in [Slots -> Lists], nv \in [Slots -> 0..2]}
Next == \/ \E r \in Rounds : Serve(r)
        \/ Try \/ Tick \/ TipBetter \/ StopReq
        \/ \E res \in {"accept", "reject", "orphan"} : Submit(res)
Spec == Init /\ [][Next]_M
(* Liveness (SPECIFICATION FairSpec): with time, the slot loop and the submit wait weakly fair, and templates served
   only while the horizon leaves room for all their slots, a search always ends (block solved, window over, stale or
   stopped) and a solved block is always submitted. *)
NextL == \/ \E r \in Rounds : M.now + W + 1 <= MaxNow /\ Serve(r)
         \/ Try \/ Tick \/ TipBetter \/ StopReq
         \/ \E res \in {"accept", "reject", "orphan"} : Submit(res)
FairSpec == Init /\ [][NextL]_M /\ WF_M(Tick) /\ WF_M(Try) /\ WF_M(\E res \in {"accept", "reject", "orphan"} : Submit(res))
SearchEnds == (M.pc = "search") ~> (M.pc # "search")
SolvedIsSubmitted == (M.pc = "hold") ~> (M.pc = "idle" /\ M.last # None)
=============================================================================
