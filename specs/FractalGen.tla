------------------------------- MODULE FractalGen -------------------------------
(* Behaviour generator for Fractal.tla: the specification itself is simulated (so only enabled steps are taken and
   task channels are never overfilled) and the steps are recorded in hist. *)
EXTENDS Fractal, Json
CONSTANTS GenLen, MaxOutages      \* MaxOutages: how many link outages a behaviour may contain (each costs the replay up to 30 s)
VARIABLE hist
GRHome == [r \in Relays |-> IF r = "r3" THEN "r1" ELSE "S"]
GHome == [c \in Leaves |-> IF c \in {"c1", "c2", "l1"} THEN "S" ELSE IF c \in {"c3", "c4"} THEN "r1" ELSE IF c = "c5" THEN "r2" ELSE "r3"]
RS(X) == RandomElement(IF Len(hist) >= 0 THEN X ELSE {})
Log(r, x) == hist' = Append(hist, r) /\ R' = x
GInit == Init /\ hist = <<>>
\* outage behaviours start with a tree that has something to lose: relay r1 with r3 behind it, a scripted collector at each and the
\* LocalCollector l2 behind r3 (the prefix is replayed like every other step)
OutPrefix == <<[a |-> "Connect", r |-> "r1"], [a |-> "Connect", r |-> "r3"], [a |-> "Subscribe", c |-> "c3"],
               [a |-> "Subscribe", c |-> "c6"], [a |-> "Subscribe", c |-> "l2"], [a |-> "Subscribe", c |-> "c1"]>>
GInitOut == /\ hist = OutPrefix
            /\ R = Subscribe(Subscribe(Subscribe(Subscribe(Connect(Connect(InitR, "r1"), "r3"), "c3"), "c6"), "l2"), "c1")
AddedT == {t \in TaskIds : R.tasks[t] # NoTask}
Fresh == {t \in TaskIds : R.tasks[t] = NoTask}
Pending == {t \in AddedT : Unread(R, t) > 0}
Reachable == {c \in Leaves \ Auto : CanReport(R, c)}
\* reports: mostly to added tasks, now and then to one that does not exist (yet); bursts of up to three
Bursts == {<<a>> : a \in Payloads} \cup {<<a, b>> : a \in Payloads, b \in Payloads} \cup {<<a, b, c>> : a \in Payloads, b \in Payloads, c \in Payloads}
RECURSIVE ReportAll(_, _, _, _)
ReportAll(x, c, t, ps) == IF ps = <<>> THEN x ELSE ReportAll(Report(x, c, t, Head(ps)), c, t, Tail(ps))
NOutages == Cardinality({i \in DOMAIN hist : hist[i].a = "Outage"})
Room(t) == IF Accepts(R, t) THEN QCap - Unread(R, t) ELSE 3
GNext ==
  \* a LocalCollector (Auto leaf) subscribes once per life; scripted collectors may be subscribed again
  \/ \E i \in 1..3 : \E c \in {RS(Leaves)} : CanSubscribe(R, c) /\ (c \in Auto => ~Subscribed(R, c)) /\ Log([a |-> "Subscribe", c |-> c], Subscribe(R, c))
  \/ \E c \in {RS(Leaves)} : CanSubscribe(R, c) /\ Log([a |-> "Unsubscribe", c |-> c], Unsubscribe(R, c))
  \/ \E i \in 1..2 : \E r \in {RS(Relays)} : CanConnect(R, r) /\ Log([a |-> "Connect", r |-> r], Connect(R, r))
  \* the relay stops, or (hard) the TCP connection is cut in the middle first
  \/ \E r \in {RS(Relays)} : R.alive[r] /\ Log([a |-> "Disconnect", r |-> r, hard |-> RS(BOOLEAN)], Disconnect(R, r))
  \* M6: a link breaks while the relay stays up; later the relay has dialled again
  \/ \E i \in 1..2 : NOutages < MaxOutages /\ \E r \in {RS(Relays)} : CanOutage(R, r) /\ Log([a |-> "Outage", r |-> r], Outage(R, r))
  \/ \E i \in 1..3 : \E r \in {RS(Relays)} : CanRecover(R, r) /\ Log([a |-> "Recover", r |-> r], Recover(R, r))
  \/ \E i \in 1..2 : Fresh # {} /\ \E t \in {RS(Fresh)} : Log([a |-> "AddB", t |-> t], AddBroadcast(R, t))
  \* targeted tasks: half of them at a node that has (or may have) a LocalCollector, which answers on its own
  \/ \E i \in 1..2 : Fresh # {} /\ \E t \in {RS(Fresh)}, tg \in {RS(IF RS(1..2) = 1 THEN {Src(c) : c \in Auto} ELSE Sources)} :
        Log([a |-> "AddT", t |-> t, tg |-> tg], AddTarget(R, t, tg))
  \/ \E i \in 1..5 : Reachable # {} /\ \E c \in {RS(Reachable)}, t \in {RS(IF AddedT # {} /\ RS(1..6) > 1 THEN AddedT ELSE TaskIds)}, ps \in {RS(Bursts)} :
        Len(ps) <= Room(t) /\ Log([a |-> "Report", c |-> c, t |-> t, ps |-> ps], ReportAll(R, c, t, ps))
  \/ \E i \in 1..3 : AddedT # {} /\ \E t \in {RS(IF Pending # {} /\ RS(1..4) > 1 THEN Pending ELSE AddedT)} :
        LET ss == {s \in Sources : CanTake(R, t, s)} IN
        IF ss = {} THEN Log([a |-> "Take", t |-> t], R) ELSE \E s \in ss : Log([a |-> "Take", t |-> t], Take(R, t, s))
  \/ AddedT # {} /\ \E t \in {RS(AddedT)} : Log([a |-> "Remove", t |-> t], RemoveTask(R, t))
Emit == Len(hist) = GenLen => PrintT(<<"BEHAVIOUR", ToJson(hist)>>)
=============================================================================
