------------------------------- MODULE KeeperIndexMC -------------------------------
EXTENDS KeeperIndex, Json
CONSTANT GenLen
VARIABLE hist
RS(X) == RandomElement(IF Len(hist) >= 0 THEN X ELSE {})
Coin(n) == RS(1..n) = 1
\* mostly good files, with one defect at a time
PickFile == LET base == [key |-> RS(Owned), ordOK |-> TRUE, bl |-> RS({24, 26}), legacy |-> FALSE, hdr |-> "ok", d |-> RS(Dirs),
                         prog |-> RS({"none", "preplotted", "plotted"}), hasA |-> TRUE]
            IN CASE Coin(3) -> base
                 [] Coin(2) -> [base EXCEPT !.hdr = RS(HdrKinds)]
                 [] Coin(2) -> [base EXCEPT !.key = RS(Keys), !.ordOK = Coin(2)]
                 [] Coin(2) -> [base EXCEPT !.legacy = TRUE, !.key = RS(Keys)]
                 [] OTHER -> [base EXCEPT !.hasA = FALSE, !.prog = RS({"none", "plotted"})]
GInit == content = {} /\ hist = <<>>
\* (the file is bound by a quantifier so that the random pick is evaluated once)
GNext == \E f \in {PickFile} : f \notin content /\ WellFormed(content \cup {f}) /\ content' = content \cup {f} /\ hist' = Append(hist, f)
Emit == Len(hist) = GenLen => PrintT(<<"BEHAVIOUR", ToJson(hist)>>)
=============================================================================
