CONSTANTS
  Leaves = {"c1", "c2", "c3", "c4", "c5", "c6", "l1", "l2"}
  Relays = {"r1", "r2", "r3"}
  RHome <- GRHome
  Home <- GHome
  TaskIds = {"t1", "t2", "t3", "t4"}
  Payloads = {"p1", "p2", "p3", "p4", "p5", "p6"}
  Auto = {"l1", "l2"}
  QCap = 10
  GenLen = 28
  MaxOutages = 2
INIT GInitOut
NEXT GNext
INVARIANT Emit
CHECK_DEADLOCK FALSE
