------------------------------- MODULE KeeperLife -------------------------------
(***************************************************************************)
(* Start and stop of the space keeper and the life of its plotter           *)
(* goroutine (capacity.go OnStart / OnStop, space_plotter.go spacePlotter). *)
(* OnStart makes a new quit channel and spawns the plotter; OnStop closes   *)
(* the quit channel and waits on the keeper's wait group; the plotter       *)
(* reads the keeper's *current* quit channel whenever it looks.             *)
(*   JoinRule = "inside": the goroutine itself adds to the wait group as    *)
(*                        its first step (pinned code);                     *)
(*   JoinRule = "before": OnStart adds before spawning (repaired, 0569a38). *)
(* TLC refutes OnePlotter and StopWaits for "inside" (Start; Stop before    *)
(* the goroutine ran; Start) - the schedule StartStopStart of keeperdrv -   *)
(* and verifies them for "before".                                          *)
(***************************************************************************)
EXTENDS Naturals, FiniteSets, TLC

CONSTANTS JoinRule, MaxStarts

VARIABLES started,     \* the keeper's service flag
          gen,         \* number of quit channels made so far (the current one is gen)
          closed,      \* which quit channels are closed
          wg,          \* the wait group's counter
          gs,          \* plotter goroutines: id -> pc in {"spawned", "running", "done"}
          stopping     \* OnStop has closed the channel and waits for wg = 0
vars == <<started, gen, closed, wg, gs, stopping>>

Init == started = FALSE /\ gen = 0 /\ closed = {} /\ wg = 0 /\ gs = <<>> /\ stopping = FALSE

Start == /\ ~started /\ ~stopping /\ gen < MaxStarts
         /\ started' = TRUE /\ gen' = gen + 1
         /\ gs' = [i \in 1..(gen + 1) |-> IF i = gen + 1 THEN "spawned" ELSE gs[i]]
         /\ wg' = IF JoinRule = "before" THEN wg + 1 ELSE wg
         /\ UNCHANGED <<closed, stopping>>
\* the goroutine's first instruction
Enter(i) == /\ gs[i] = "spawned" /\ gs' = [gs EXCEPT ![i] = "running"]
            /\ wg' = IF JoinRule = "inside" THEN wg + 1 ELSE wg
            /\ UNCHANGED <<started, gen, closed, stopping>>
\* the plotter looks at the keeper's current quit channel (the field, not the one it was born with)
SeeQuit(i) == /\ gs[i] = "running" /\ gen \in closed
              /\ gs' = [gs EXCEPT ![i] = "done"] /\ wg' = wg - 1
              /\ UNCHANGED <<started, gen, closed, stopping>>
StopBegin == started /\ ~stopping /\ closed' = closed \cup {gen} /\ stopping' = TRUE /\ UNCHANGED <<started, gen, wg, gs>>
StopEnd == stopping /\ wg = 0 /\ stopping' = FALSE /\ started' = FALSE /\ UNCHANGED <<gen, closed, wg, gs>>
Next == Start \/ StopBegin \/ StopEnd \/ \E i \in DOMAIN gs : Enter(i) \/ SeeQuit(i)
Spec == Init /\ [][Next]_vars

Alive == {i \in DOMAIN gs : gs[i] # "done"}
\* never two plotter goroutines that are (or will come) alive at once
OnePlotter == Cardinality(Alive) <= 1
\* when Stop has returned, no plotter goroutine is left
StopWaits == (~started /\ ~stopping) => Alive = {}
=============================================================================
