---------------------------- MODULE BucketStoreMC ----------------------------
(* Exhaustive configuration of BucketStore: two valid names, one invalid, depth 2. *)
EXTENDS BucketStore
MCNames    == {<<"x">>, <<"b">>, <<"x", "_">>}
MCKeys     == {<<"k">>, <<"b", "_", "k">>, <<>>}
MCScanPrefixes == {<<>>}
MCVals     == {"v1", "v2", ""}
MCBad      == {"_", "L"}
CONSTANTS MaxKv, MaxB
Small(s)   == Cardinality(s.kv) <= MaxKv /\ Cardinality(s.b) <= MaxB
Bound      == Small(committed) /\ (tx # NoTx => Small(tx))
=============================================================================
