------------------------------- MODULE CapacityGen -------------------------------
(* Request generator for Capacity.tla: sequences of configuration requests, removals, deletions and restarts. *)
EXTENDS Integers, Sequences, TLC, Json
CONSTANT GenLen
VARIABLE hist
RS(X) == RandomElement(IF Len(hist) >= 0 THEN X ELSE {})
Coin(n) == RS(1..n) = 1
\* targets in half units of 8 MiB: below the minimum, exact multiples of plot sizes, one above / below, mixtures
Targets == {0, 1, 23, 24, 25, 47, 48, 49, 103, 104, 105, 127, 128, 152, 153, 208, 232, 447, 448, 449, 472, 552, 600, 896, 1000}
PathTs == {0, 23, 24, 25, 48, 104, 128, 130, 232}
Log(r) == hist' = Append(hist, r)
GInit == hist = <<>>
GNext ==
  \/ \E i \in 1..6 : Log([a |-> "BySize", t |-> RS(Targets)])
  \/ \E i \in 1..3 : Log([a |-> "ByPath", dirs |-> RS({<<"d1">>, <<"d2">>, <<"d1", "d2">>, <<"d2", "d1">>}), ts |-> <<RS(PathTs), RS(PathTs)>>])
  \/ \E i \in 1..3 : Log([a |-> "ByBL", counts |-> RS({[x \in {"24"} |-> RS(0..3)], [x \in {"24", "26"} |-> RS(0..2)], [x \in {"26", "28"} |-> RS(1..2)], [x \in {"24", "26", "28"} |-> RS(0..1)]})])
  \/ \E i \in 1..3 : Log([a |-> "Remove", k |-> RS(0..5)])
  \/ \E i \in 1..2 : Log([a |-> "Delete", k |-> RS(0..5)])
  \/ \E i \in 1..2 : Log([a |-> "Restart"])
  \/ Log([a |-> "TooBig"])
  \/ Log([a |-> "Wrap", t |-> RS(Targets)])
Emit == Len(hist) = GenLen => PrintT(<<"BEHAVIOUR", ToJson(hist)>>)
=============================================================================
