CONSTANTS
  JoinRule = "before"
  MaxStarts = 3
SPECIFICATION Spec
INVARIANTS OnePlotter StopWaits
CHECK_DEADLOCK FALSE
