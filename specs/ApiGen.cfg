CONSTANTS
  Spaces = {"w1", "w2", "w3"}
  Order <- GOrder
  ChanCap = 1024
  GenLen = 30
INIT GInit
NEXT GNext
INVARIANT Emit
CHECK_DEADLOCK FALSE
