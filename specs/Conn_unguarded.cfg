CONSTANTS
  RecvRule = "unguarded"
  QCap = 2
  N = 3
SPECIFICATION Spec
INVARIANT LaneOrder
PROPERTY StopCompletes
CHECK_DEADLOCK FALSE
