CONSTANTS
  Threads = {"t1", "t2", "t3"}
  ChanCap = 2
  MaxReq = 3
  SendRule = "refuse"
  PopRule = "checked"
SPECIFICATION Spec
INVARIANTS NoWedge NoPanic
CHECK_DEADLOCK FALSE
