CONSTANTS
  Threads = {"t1", "t2", "t3"}
  ChanCap = 2
  MaxReq = 3
SPECIFICATION Spec
INVARIANT NoWedge
CHECK_DEADLOCK FALSE
