------------------------------- MODULE FractalMC -------------------------------
EXTENDS Fractal
MCHome == [c \in Leaves |-> IF c = "c1" THEN "r1" ELSE "r2"]
MCRHome == [r \in Relays |-> IF r = "r1" THEN "S" ELSE "r1"]
Small == \A c \in Leaves, t \in TaskIds : R.got[c][t] <= 2
=============================================================================
