------------------------------- MODULE Miner2Trace -------------------------------
(***************************************************************************)
(* Trace validation for Miner2.tla: the real chia miner on the real         *)
(* LocalSuperior with scripted collectors and a scripted chain.  Recorded:  *)
(* templates served (items with their real quality order and the target     *)
(* levels), which collector is asked for the proof and for the signature,   *)
(* every block handed to ProcessBlock (decoded), tips, stops.               *)
(***************************************************************************)
EXTENDS Miner2, Json, SequencesExt
Traces == ndJsonDeserialize("traces.ndjson")
VARIABLES tr, l, T
ASSUME TLCSet(1, {}) /\ TLCSet(2, [i \in DOMAIN Traces |-> 0])
ToSetS(s) == {s[i] : i \in DOMAIN s}
RoundOf(e) == [items |-> {[q |-> x.q, c |-> x.c, off |-> x.off, bound |-> x.bound] : x \in ToSetS(e.items)},
               order |-> [o \in Slots |-> e.order[o + 1]], nover |-> [o \in Slots |-> e.nover[o + 1]], h |-> e.h, prev |-> e.prev]
Seen(i) == i \in DOMAIN T.rounds
TInit0 == T = [rounds |-> <<>>, mined |-> {}, due |-> {}, tipAt |-> <<>>, stopAt |-> -1, stopped |-> FALSE, accepted |-> 0, newblocks |-> 0]
GraceTip == 1000
GraceStop == 500

Step(e) ==
  \/ /\ e.ev = "Tpl"
     /\ LET r == RoundOf(e)
            obliged == HasWinner(r, r.items) /\ e.tip \in {"none", "same"} /\ e.stopms = -1 /\ e.h \notin T.mined /\ T.stopAt < 0
        IN T' = [T EXCEPT !.rounds = (e.round :> r) @@ @, !.due = IF obliged THEN @ \cup {e.round} ELSE @,
                          !.tipAt = (e.round :> [kind |-> e.tip, ms |-> -1]) @@ @]
  \/ e.ev = "Qreq" /\ T' = T
  \* the proof and the signature are asked of the collector that reported the winning quality, for that quality
  \/ /\ e.ev \in {"ProofReq", "SigReq"} /\ e.round # -1 /\ Seen(e.round)
     /\ RightCollector(T.rounds[e.round], e.c) /\ Winner(T.rounds[e.round], T.rounds[e.round].items).q = e.q
     /\ (e.ev = "ProofReq" => e.challok)
     \* the round is decided when the proof is asked for: not after a better tip has been known for a ticker period,
     \* not after a stop request
     /\ (e.ev = "ProofReq" /\ T.tipAt[e.round].kind = "better" /\ T.tipAt[e.round].ms >= 0 => e.abs <= T.tipAt[e.round].ms + GraceTip)
     /\ (e.ev = "ProofReq" /\ T.stopAt >= 0 => e.abs <= T.stopAt + GraceStop)
     /\ T' = T
  \/ e.ev = "Tip" /\ T' = [T EXCEPT !.tipAt[e.round].ms = e.abs]
  \/ e.ev = "Expire" /\ T' = [T EXCEPT !.tipAt[e.round] = [kind |-> "better", ms |-> e.abs]]
  \/ /\ e.ev = "Submit"
     /\ e.round # -1 /\ Seen(e.round)
     /\ e.hok /\ e.challok /\ e.aligned /\ e.targetok
     /\ e.q # "unknown" /\ e.proofok /\ e.sigok /\ e.sighashok      \* the winner's proof as its collector gave it; the
                                                                 \* aggregate of plot and farmer signature verifies; the
                                                                 \* collector signed exactly this header's hash
     /\ ~e.early
     /\ RightBlock(T.rounds[e.round], e.off, e.q)
     /\ T.tipAt[e.round].kind # "switched"
     /\ ~T.stopped
     /\ e.h \notin T.mined
     /\ T' = [T EXCEPT !.due = @ \ {e.round}, !.mined = IF e.res = "accept" THEN @ \cup {e.h} ELSE @,
                       !.accepted = IF e.res = "accept" THEN @ + 1 ELSE @]
  \/ e.ev = "NewBlock" /\ T.newblocks < T.accepted /\ T' = [T EXCEPT !.newblocks = @ + 1]
  \/ e.ev = "Stop" /\ T' = [T EXCEPT !.stopAt = e.abs, !.due = {}]
  \/ e.ev = "Stopped" /\ e.prompt /\ T' = [T EXCEPT !.stopped = TRUE]
  \/ e.ev = "End" /\ T.due = {} /\ T.newblocks = T.accepted /\ T' = T

TInit == Init /\ TInit0 /\ tr \in DOMAIN Traces /\ l = 1
TNext == /\ l <= Len(Traces[tr].ev) /\ Step(Traces[tr].ev[l])
         /\ l' = l + 1 /\ UNCHANGED <<tr, M>>
Mark == /\ (IF l - 1 > TLCGet(2)[tr] THEN TLCSet(2, [TLCGet(2) EXCEPT ![tr] = l - 1]) ELSE TRUE)
        /\ (IF l = Len(Traces[tr].ev) + 1 THEN TLCSet(1, TLCGet(1) \cup {tr}) ELSE TRUE)
Done == PrintT(<<"ACCEPTED", ToJson(TLCGet(1))>>) /\ PrintT(<<"HW", ToJson(TLCGet(2))>>)
=============================================================================
