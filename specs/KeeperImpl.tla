------------------------------- MODULE KeeperImpl -------------------------------
(***************************************************************************)
(* Mechanism model of the keeper's synchronisation (C13): the state lock   *)
(* (a readers-writer lock), the bounded request channel, the plotter's     *)
(* loop, and API callers as threads.  It models what the code does:        *)
(*   PlotWS  takes the READ lock and, for a registered space, sends on the *)
(*           channel while holding it;                                     *)
(*   MineWS  takes the WRITE lock and sends while holding it;              *)
(*   StopWS / queries take the write / read lock;                          *)
(*   the plotter receives from the channel only when its queue is empty    *)
(*           and it is idle; step 1 and step 3 take the write lock.        *)
(* Go's RWMutex blocks new readers once a writer waits.                    *)
(* TLC looks for states in which a thread can never proceed.  Its          *)
(* counterexamples are candidate schedules only: each is replayed on the   *)
(* real keeper (harness/cmd/keeperdrv, action Burst) and only what the     *)
(* real code does there counts.                                            *)
(***************************************************************************)
EXTENDS Naturals, Sequences, FiniteSets, TLC

CONSTANTS Threads, ChanCap, MaxReq     \* MaxReq: requests each thread issues

VARIABLES readers,      \* threads holding the read lock
          writer,       \* thread holding the write lock, or "none"
          wwait,        \* threads waiting for the write lock
          chan,         \* number of requests in the channel
          queue,        \* number of requests the plotter has taken over
          ppc,          \* plotter: "idle" | "step1" | "plotting" | "step3"
          tpc,          \* thread pc: "idle" | "plot_locked" | "mine_locked" | "query_locked" | "done"
          left          \* requests left per thread

vars == <<readers, writer, wwait, chan, queue, ppc, tpc, left>>
Plotter == "plotter"

Init == /\ readers = {} /\ writer = "none" /\ wwait = {} /\ chan = 0 /\ queue = 0
        /\ ppc = "idle" /\ tpc = [t \in Threads |-> "idle"] /\ left = [t \in Threads |-> MaxReq]

CanRead(t)  == writer = "none" /\ wwait = {}            \* a waiting writer blocks new readers (Go RWMutex)
CanWrite(t) == writer = "none" /\ readers = {}

\* ---- API threads
PlotLock(t) == /\ tpc[t] = "idle" /\ left[t] > 0 /\ CanRead(t)
               /\ readers' = readers \cup {t} /\ tpc' = [tpc EXCEPT ![t] = "plot_locked"]
               /\ UNCHANGED <<writer, wwait, chan, queue, ppc, left>>
PlotSend(t) == /\ tpc[t] = "plot_locked" /\ chan < ChanCap              \* blocks here while the channel is full
               /\ chan' = chan + 1 /\ readers' = readers \ {t}
               /\ tpc' = [tpc EXCEPT ![t] = "idle"] /\ left' = [left EXCEPT ![t] = @ - 1]
               /\ UNCHANGED <<writer, wwait, queue, ppc>>
MineWant(t) == /\ tpc[t] = "idle" /\ left[t] > 0 /\ t \notin wwait
               /\ wwait' = wwait \cup {t} /\ UNCHANGED <<readers, writer, chan, queue, ppc, tpc, left>>
MineLock(t) == /\ t \in wwait /\ tpc[t] = "idle" /\ CanWrite(t)
               /\ writer' = t /\ wwait' = wwait \ {t} /\ tpc' = [tpc EXCEPT ![t] = "mine_locked"]
               /\ UNCHANGED <<readers, chan, queue, ppc, left>>
MineSend(t) == /\ tpc[t] = "mine_locked" /\ chan < ChanCap
               /\ chan' = chan + 1 /\ writer' = "none"
               /\ tpc' = [tpc EXCEPT ![t] = "idle"] /\ left' = [left EXCEPT ![t] = @ - 1]
               /\ UNCHANGED <<readers, wwait, queue, ppc>>
Query(t)    == /\ tpc[t] = "idle" /\ left[t] > 0 /\ CanRead(t)
               /\ left' = [left EXCEPT ![t] = @ - 1]             \* lock, read, unlock in one step
               /\ UNCHANGED <<readers, writer, wwait, chan, queue, ppc, tpc>>

\* ---- plotter
PRecv  == /\ ppc = "idle" /\ queue = 0 /\ chan > 0
          /\ queue' = chan /\ chan' = 0 /\ UNCHANGED <<readers, writer, wwait, ppc, tpc, left>>
PPop   == /\ ppc = "idle" /\ queue > 0 /\ queue' = queue - 1 /\ ppc' = "step1"
          /\ UNCHANGED <<readers, writer, wwait, chan, tpc, left>>
PWant(pc) == /\ ppc = pc /\ Plotter \notin wwait /\ writer # Plotter
             /\ wwait' = wwait \cup {Plotter} /\ UNCHANGED <<readers, writer, chan, queue, ppc, tpc, left>>
PStep1 == /\ ppc = "step1" /\ Plotter \in wwait /\ CanWrite(Plotter)
          /\ wwait' = wwait \ {Plotter} /\ ppc' = "plotting"     \* lock, change state, unlock
          /\ UNCHANGED <<readers, writer, chan, queue, tpc, left>>
PPlotEnd == ppc = "plotting" /\ ppc' = "step3" /\ UNCHANGED <<readers, writer, wwait, chan, queue, tpc, left>>
PStep3 == /\ ppc = "step3" /\ Plotter \in wwait /\ CanWrite(Plotter)
          /\ wwait' = wwait \ {Plotter} /\ ppc' = "idle"
          /\ UNCHANGED <<readers, writer, chan, queue, tpc, left>>

Next == \/ \E t \in Threads : PlotLock(t) \/ PlotSend(t) \/ MineWant(t) \/ MineLock(t) \/ MineSend(t) \/ Query(t)
        \/ PRecv \/ PPop \/ PWant("step1") \/ PStep1 \/ PPlotEnd \/ PWant("step3") \/ PStep3
Spec == Init /\ [][Next]_vars

AllDone == \A t \in Threads : tpc[t] = "idle" /\ left[t] = 0 /\ t \notin wwait
Quiet   == AllDone /\ ppc = "idle" /\ chan = 0 /\ queue = 0
\* F-C13a: a caller blocked on the full channel while holding the state lock, with the plotter needing that lock
\* before it will ever receive again
KnownWedge == \E t \in Threads : tpc[t] \in {"plot_locked", "mine_locked"} /\ chan = ChanCap
\* no thread is ever stuck for good - except in the known wedge
NoWedge == (~ENABLED Next) => (Quiet \/ KnownWedge)
\* the known wedge is reachable (the model is not vacuous about it)
WedgeUnreachable == ~(KnownWedge /\ ~ENABLED Next)
=============================================================================
