------------------------------- MODULE KeeperImpl -------------------------------
(***************************************************************************)
(* Mechanism model of the keeper's synchronisation (C13): the state lock   *)
(* (a readers-writer lock), the bounded request channel, the plotter's     *)
(* loop, and API callers as threads.  It models what the code does:        *)
(*   PlotWS  takes the READ lock and, for a registered space, sends on the *)
(*           channel while holding it;                                     *)
(*   MineWS  takes the WRITE lock and sends while holding it;              *)
(*   StopWS / queries take the write / read lock;                          *)
(*   the plotter receives from the channel only when its queue is empty    *)
(*           and it is idle; step 1 and step 3 take the write lock.        *)
(*   StopWS / RemoveWS / DeleteWS purge the plotter's queue from the       *)
(*           caller's goroutine (under the write lock; the plotter's test  *)
(*           and pop of the queue take no state lock).                     *)
(* Go's RWMutex blocks new readers once a writer waits.                    *)
(* TLC looks for states in which a thread can never proceed.  Its          *)
(* counterexamples are candidate schedules only: each is replayed on the   *)
(* real keeper (harness/cmd/keeperdrv, action Burst) and only what the     *)
(* real code does there counts.                                            *)
(***************************************************************************)
EXTENDS Naturals, Sequences, FiniteSets, TLC

CONSTANTS Threads, ChanCap, MaxReq,    \* MaxReq: requests each thread issues
          SendRule,                    \* "block": a request is sent on the channel while the state lock is held, waiting for room (pinned
                                       \* code); "refuse": a full channel refuses the request at once (repaired)
          PopRule                      \* "unchecked": the plotter pops after an Empty() test made earlier (pinned code);
                                       \* "checked": the pop itself tests for emptiness under the queue's mutex (repaired)

VARIABLES readers,      \* threads holding the read lock
          writer,       \* thread holding the write lock, or "none"
          wwait,        \* threads waiting for the write lock
          chan,         \* number of requests in the channel
          queue,        \* number of requests the plotter has taken over
          ppc,          \* plotter: "idle" | "step1" | "plotting" | "step3"
          tpc,          \* thread pc: "idle" | "plot_locked" | "mine_locked" | "query_locked" | "done"
          left          \* requests left per thread

vars == <<readers, writer, wwait, chan, queue, ppc, tpc, left>>
Plotter == "plotter"

Init == /\ readers = {} /\ writer = "none" /\ wwait = {} /\ chan = 0 /\ queue = 0
        /\ ppc = "idle" /\ tpc = [t \in Threads |-> "idle"] /\ left = [t \in Threads |-> MaxReq]

CanRead(t)  == writer = "none" /\ wwait = {}            \* a waiting writer blocks new readers (Go RWMutex)
CanWrite(t) == writer = "none" /\ readers = {}

\* ---- API threads
PlotLock(t) == /\ tpc[t] = "idle" /\ left[t] > 0 /\ CanRead(t)
               /\ readers' = readers \cup {t} /\ tpc' = [tpc EXCEPT ![t] = "plot_locked"]
               /\ UNCHANGED <<writer, wwait, chan, queue, ppc, left>>
PlotSend(t) == /\ tpc[t] = "plot_locked" /\ (chan < ChanCap \/ SendRule = "refuse")    \* "block": waits here while the channel is full
               /\ chan' = (IF chan < ChanCap THEN chan + 1 ELSE chan) /\ readers' = readers \ {t}
               /\ tpc' = [tpc EXCEPT ![t] = "idle"] /\ left' = [left EXCEPT ![t] = @ - 1]
               /\ UNCHANGED <<writer, wwait, queue, ppc>>
MineWant(t) == /\ tpc[t] = "idle" /\ left[t] > 0 /\ t \notin wwait
               /\ wwait' = wwait \cup {t} /\ UNCHANGED <<readers, writer, chan, queue, ppc, tpc, left>>
MineLock(t) == /\ t \in wwait /\ tpc[t] = "idle" /\ CanWrite(t)
               /\ writer' = t /\ wwait' = wwait \ {t} /\ tpc' = [tpc EXCEPT ![t] = "mine_locked"]
               /\ UNCHANGED <<readers, chan, queue, ppc, left>>
MineSend(t) == /\ tpc[t] = "mine_locked" /\ (chan < ChanCap \/ SendRule = "refuse")
               /\ chan' = (IF chan < ChanCap THEN chan + 1 ELSE chan) /\ writer' = "none"
               /\ tpc' = [tpc EXCEPT ![t] = "idle"] /\ left' = [left EXCEPT ![t] = @ - 1]
               /\ UNCHANGED <<readers, wwait, queue, ppc>>
Query(t)    == /\ tpc[t] = "idle" /\ left[t] > 0 /\ CanRead(t)
               /\ left' = [left EXCEPT ![t] = @ - 1]             \* lock, read, unlock in one step
               /\ UNCHANGED <<readers, writer, wwait, chan, queue, ppc, tpc>>

\* ---- plotter
PRecv  == /\ ppc = "idle" /\ queue = 0 /\ chan > 0
          /\ queue' = chan /\ chan' = 0 /\ UNCHANGED <<readers, writer, wwait, ppc, tpc, left>>
\* the plotter's loop tests `!queue.Empty()` and pops in a later step; a purge may come in between
PCheck == /\ ppc = "idle" /\ queue > 0 /\ ppc' = "nonempty"
          /\ UNCHANGED <<readers, writer, wwait, chan, queue, tpc, left>>
PPop   == /\ ppc = "nonempty"
          /\ IF queue > 0 THEN queue' = queue - 1 /\ ppc' = "step1"
             ELSE queue' = queue /\ ppc' = (IF PopRule = "checked" THEN "idle" ELSE "panic")     \* PopItem on an empty prque
          /\ UNCHANGED <<readers, writer, wwait, chan, tpc, left>>
\* StopWS / RemoveWS / DeleteWS: write lock, purge the queue, unlock (one step once the lock is free)
Purge(t) == /\ tpc[t] = "idle" /\ left[t] > 0 /\ t \notin wwait /\ CanWrite(t) /\ wwait = {}
            /\ queue' = 0 /\ left' = [left EXCEPT ![t] = @ - 1]
            /\ UNCHANGED <<readers, writer, wwait, chan, ppc, tpc>>
PWant(pc) == /\ ppc = pc /\ Plotter \notin wwait /\ writer # Plotter
             /\ wwait' = wwait \cup {Plotter} /\ UNCHANGED <<readers, writer, chan, queue, ppc, tpc, left>>
PStep1 == /\ ppc = "step1" /\ Plotter \in wwait /\ CanWrite(Plotter)
          /\ wwait' = wwait \ {Plotter} /\ ppc' = "plotting"     \* lock, change state, unlock
          /\ UNCHANGED <<readers, writer, chan, queue, tpc, left>>
PPlotEnd == ppc = "plotting" /\ ppc' = "step3" /\ UNCHANGED <<readers, writer, wwait, chan, queue, tpc, left>>
PStep3 == /\ ppc = "step3" /\ Plotter \in wwait /\ CanWrite(Plotter)
          /\ wwait' = wwait \ {Plotter} /\ ppc' = "idle"
          /\ UNCHANGED <<readers, writer, chan, queue, tpc, left>>

Next == \/ \E t \in Threads : PlotLock(t) \/ PlotSend(t) \/ MineWant(t) \/ MineLock(t) \/ MineSend(t) \/ Query(t) \/ Purge(t)
        \/ PRecv \/ PCheck \/ PPop \/ PWant("step1") \/ PStep1 \/ PPlotEnd \/ PWant("step3") \/ PStep3
Spec == Init /\ [][Next]_vars

AllDone == \A t \in Threads : tpc[t] = "idle" /\ left[t] = 0 /\ t \notin wwait
Quiet   == AllDone /\ ppc = "idle" /\ chan = 0 /\ queue = 0
\* F-C13a: a caller blocked on the full channel while holding the state lock, with the plotter needing that lock
\* before it will ever receive again
KnownWedge == \E t \in Threads : tpc[t] \in {"plot_locked", "mine_locked"} /\ chan = ChanCap
\* no thread is ever stuck for good - except in the known wedge
NoWedge == (~ENABLED Next) => (Quiet \/ (SendRule = "block" /\ KnownWedge) \/ ppc = "panic")
\* the plotter never pops from a queue a caller has just emptied (fixed by the repair recorded as
\* F-C13-plotter-pops-emptied-queue; with PopRule = "unchecked" TLC produces the schedule)
NoPanic == ppc # "panic"
\* the known wedge is reachable (the model is not vacuous about it)
WedgeUnreachable == ~(KnownWedge /\ ~ENABLED Next)
=============================================================================
