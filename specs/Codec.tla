------------------------------- MODULE Codec -------------------------------
(***************************************************************************)
(* Case analysis of the cluster wire codec (fractal/protocol: message.go,  *)
(* protocol.go).  Serves C16.                                              *)
(*                                                                         *)
(* A frame is a 2-byte big-endian type tag followed by a JSON body.  The   *)
(* specification describes a frame abstractly: which prefix class it has,  *)
(* which body class, and for an object body the class of every field       *)
(* (absent, null, wrong JSON type, malformed, boundary values, valid ...). *)
(* Decode is total: it yields a message exactly when the tag names one of  *)
(* the six types, the body is a JSON object (or `null`) and every field    *)
(* is of an accepted class; an error otherwise; never anything else        *)
(* (no panic, no hang).  A decoded message re-encodes to a frame that      *)
(* decodes to the same message (lossless on the wire domain).              *)
(*                                                                         *)
(* The set Frames is finite; TLC enumerates it completely and every frame  *)
(* is concretised (several byte-level representatives per class) and fed   *)
(* to the real DecodeMessage: the state graph is the test suite.           *)
(***************************************************************************)
EXTENDS Naturals, Sequences, FiniteSets, TLC

VARIABLE frame, outcome
vars == <<frame, outcome>>

Types == {"RequestQualities", "ReportQualities", "RequestProof", "ReportProof", "RequestSignature", "ReportSignature"}

\* field name -> kind, per message type and nested object
Fields ==
  [ RequestQualities |-> [task_id |-> "uuid", challenge |-> "hash", parent_target |-> "hexint", parent_slot |-> "u64", height |-> "u64"],
    ReportQualities  |-> [task_id |-> "uuid", qualities |-> "qlist"],
    RequestProof     |-> [task_id |-> "uuid", height |-> "u64", space_id |-> "str", challenge |-> "hash", index |-> "u32"],
    ReportProof      |-> [task_id |-> "uuid", proof |-> "pobj"],
    RequestSignature |-> [task_id |-> "uuid", height |-> "u64", space_id |-> "str", hash |-> "hash"],
    ReportSignature  |-> [task_id |-> "uuid", space_id |-> "str", hash |-> "hash", signature |-> "g2"],
    Quality          |-> [space_id |-> "str", public_key |-> "g1", pool_public_key |-> "g1", index |-> "u32", k_size |-> "u8",
                          quality |-> "hexbytes", plot_id |-> "hash", slot |-> "u64"],
    Proof            |-> [space_id |-> "str", challenge |-> "hash", pool_public_key |-> "g1", plot_public_key |-> "g1",
                          k_size |-> "u8", proof |-> "hexbytes"] ]

\* classes of a field of each kind: those that decode (Ok) and those that must be refused (Bad)
Ok == [ uuid |-> {"valid", "altsyntax"},
        hash |-> {"valid", "uppercase"},
        hexint |-> {"valid", "absent", "null", "empty", "leadingzeros", "large"},
        u64 |-> {"valid", "absent", "null", "zero", "max"},
        u32 |-> {"valid", "absent", "null", "zero", "max"},
        u8  |-> {"valid", "absent", "null", "zero", "max"},
        str |-> {"valid", "absent", "null", "empty", "unicode", "long"},
        g1  |-> {"valid", "infinity"},
        g2  |-> {"valid", "infinity"},
        hexbytes |-> {"valid", "absent", "null", "empty", "long"} ]
Bad == [ uuid |-> {"absent", "null", "number", "malformed", "empty"},
         hash |-> {"absent", "null", "number", "short", "long", "nonhex"},
         hexint |-> {"number", "oddhex", "nonhex"},
         u64 |-> {"overflow", "negative", "float", "string", "exponent"},
         u32 |-> {"overflow", "negative", "float", "string", "exponent"},
         u8  |-> {"overflow", "negative", "float", "string", "exponent"},
         str |-> {"number", "object"},
         g1  |-> {"absent", "null", "number", "oddhex", "short", "long", "notoncurve"},
         g2  |-> {"absent", "null", "number", "oddhex", "short", "long", "notoncurve"},
         hexbytes |-> {"number", "oddhex", "nonhex"} ]

Scalar == DOMAIN Ok
Classes(k) == Ok[k] \cup Bad[k]

\* an object whose fields are all "valid" except at most two
AllValid(obj) == [f \in DOMAIN Fields[obj] |-> "valid"]
Dev1(obj) == {[AllValid(obj) EXCEPT ![f] = c] : f \in {g \in DOMAIN Fields[obj] : Fields[obj][g] \in Scalar},
                                                 c \in UNION {Classes(k) : k \in Scalar}}
Legal(obj, r) == \A f \in DOMAIN r : Fields[obj][f] \in Scalar => r[f] \in Classes(Fields[obj][f])
Objects1(obj) == {r \in Dev1(obj) : Legal(obj, r)}
Objects2(obj) == {r \in {[a EXCEPT ![f] = b[f]] : a \in Objects1(obj), b \in Objects1(obj), f \in DOMAIN Fields[obj]} : Legal(obj, r)}

ObjOk(obj, r) == \A f \in DOMAIN r : Fields[obj][f] \notin Scalar \/ r[f] \in Ok[Fields[obj][f]]

\* nested values (uniform records: TLC cannot compare a string with a tuple)
NoObj == [none |-> "-"]
NV(k, o) == [k |-> k, o |-> o]
PObjClasses == {NV(c, NoObj) : c \in {"absent", "null", "string", "array"}} \cup {NV("obj", r) : r \in Objects1("Proof")}
QListClasses == {NV(c, NoObj) : c \in {"absent", "null", "empty", "string", "hasnull", "nullthenvalid"}}
                \cup {NV("one", r) : r \in Objects1("Quality")}
                \cup {NV("two", r) : r \in Objects1("Quality")}      \* a valid element followed by r
NestedOk(kind, c) ==
  CASE kind = "pobj"  -> c.k = "obj" /\ ObjOk("Proof", c.o)
    [] kind = "qlist" -> c.k \in {"absent", "null", "empty"} \/ (c.k \in {"one", "two"} /\ ObjOk("Quality", c.o))

\* top-level object bodies
Bodies(t) ==
  IF t = "ReportProof" THEN {[r EXCEPT !.proof = c] : r \in Objects1(t), c \in PObjClasses}
  ELSE IF t = "ReportQualities" THEN {[r EXCEPT !.qualities = c] : r \in Objects1(t), c \in QListClasses}
  ELSE Objects2(t)

BodyOk(t, r) == /\ ObjOk(t, r)
                /\ \A f \in DOMAIN r : Fields[t][f] \in Scalar \/ NestedOk(Fields[t][f], r[f])

PrefixClasses == {"empty", "onebyte", "reserved0", "unknown7", "unknown65535"}
RawBodies == {"nothing", "null", "array", "string", "number", "truncated", "trailing", "deep", "huge", "dupkeys", "whitespace"}

Frames ==    {[prefix |-> p, type |-> "-", raw |-> "-", body |-> NoObj] : p \in PrefixClasses}
        \cup {[prefix |-> "ok", type |-> t, raw |-> b, body |-> NoObj] : t \in Types, b \in RawBodies}
        \cup UNION {{[prefix |-> "ok", type |-> t, raw |-> "object", body |-> r] : r \in Bodies(t)} : t \in Types}

\* raw bodies: `null` leaves every field absent (refused: the task id is missing); duplicate keys and whitespace
\* are ordinary JSON (last key wins); the others are not a JSON object
Outcome(f) ==
  IF f.prefix # "ok" THEN "err"
  ELSE IF f.raw # "object" THEN (IF f.raw \in {"dupkeys", "whitespace"} THEN "msg" ELSE "err")
  ELSE IF BodyOk(f.type, f.body) THEN "msg" ELSE "err"

NoFrame == [prefix |-> "none", type |-> "-", raw |-> "-", body |-> NoObj]
Init == frame = NoFrame /\ outcome = "none"
Decode(f) == frame = NoFrame /\ frame' = f /\ outcome' = Outcome(f)
Next == \E f \in Frames : Decode(f)
Spec == Init /\ [][Next]_vars

\* totality: every frame has one of the two outcomes
Total == outcome \in {"none", "msg", "err"}
\* a message comes only from a frame that names a type
MsgNeedsType == outcome = "msg" => frame.prefix = "ok"
=============================================================================
