------------------------------- MODULE Conn -------------------------------
(***************************************************************************)
(* One direction of a cluster connection (fractal/connection/conn.go):      *)
(* the sender's two bounded lanes (ordinary, priority) feeding one socket,  *)
(* the receiver's routine that reads frames into a bounded queue, the       *)
(* reader that takes them - or has gone away - and the stop of the          *)
(* receiving side, which waits for its routines.                            *)
(*   RecvRule = "unguarded": the receive routine puts a frame into its      *)
(*        queue unconditionally (pinned code);                              *)
(*   RecvRule = "guarded": it also watches the connection's context         *)
(*        (repaired, a4b59e2).                                              *)
(* TLC verifies per-lane order for both rules, refutes StopCompletes for    *)
(* "unguarded" (reader gone, queue full, peer keeps sending: the schedule   *)
(* BadFrame of fractaldrv) and verifies it for "guarded".                   *)
(***************************************************************************)
EXTENDS Naturals, Sequences, TLC

CONSTANTS RecvRule, QCap, N        \* N frames are offered per lane

VARIABLES toSendO, toSendP,   \* frames the application still wants to send on each lane (next numbers)
          laneO, laneP,       \* the sender's queues
          wire,               \* bytes in flight (frames in order)
          recvQ,              \* the receiver's queue
          got,                \* what the reader has taken
          reader,             \* "reading" | "gone"
          rpc,                \* receive routine: "run" | "holding" (has a frame it cannot put) | "exited"
          held,               \* that frame
          stop                \* "no" | "asked" | "done"
vars == <<toSendO, toSendP, laneO, laneP, wire, recvQ, got, reader, rpc, held, stop>>

Init == toSendO = 1 /\ toSendP = 1 /\ laneO = <<>> /\ laneP = <<>> /\ wire = <<>> /\ recvQ = <<>> /\ got = <<>>
        /\ reader = "reading" /\ rpc = "run" /\ held = <<>> /\ stop = "no"

OfferO == toSendO <= N /\ Len(laneO) < QCap /\ laneO' = Append(laneO, <<"o", toSendO>>) /\ toSendO' = toSendO + 1
          /\ UNCHANGED <<toSendP, laneP, wire, recvQ, got, reader, rpc, held, stop>>
OfferP == toSendP <= N /\ Len(laneP) < QCap /\ laneP' = Append(laneP, <<"p", toSendP>>) /\ toSendP' = toSendP + 1
          /\ UNCHANGED <<toSendO, laneO, wire, recvQ, got, reader, rpc, held, stop>>
\* the send routine: the priority lane first, else either lane
SendP == laneP # <<>> /\ Len(wire) < QCap /\ wire' = Append(wire, Head(laneP)) /\ laneP' = Tail(laneP)
         /\ UNCHANGED <<toSendO, toSendP, laneO, recvQ, got, reader, rpc, held, stop>>
SendO == laneP = <<>> /\ laneO # <<>> /\ Len(wire) < QCap /\ wire' = Append(wire, Head(laneO)) /\ laneO' = Tail(laneO)
         /\ UNCHANGED <<toSendO, toSendP, laneP, recvQ, got, reader, rpc, held, stop>>
\* the receive routine reads a frame, then puts it into its queue
RecvRead == rpc = "run" /\ wire # <<>> /\ held' = <<Head(wire)>> /\ wire' = Tail(wire) /\ rpc' = "holding"
            /\ UNCHANGED <<toSendO, toSendP, laneO, laneP, recvQ, got, reader, stop>>
RecvPut == rpc = "holding" /\ Len(recvQ) < QCap /\ recvQ' = Append(recvQ, held[1]) /\ held' = <<>> /\ rpc' = "run"
           /\ UNCHANGED <<toSendO, toSendP, laneO, laneP, wire, got, reader, stop>>
\* the context is cancelled: the guarded routine gives up; both give up when idle (the socket is closed under them)
RecvQuit == /\ stop = "asked"
            /\ (rpc = "run" \/ (rpc = "holding" /\ RecvRule = "guarded"))
            /\ rpc' = "exited" /\ held' = <<>>
            /\ UNCHANGED <<toSendO, toSendP, laneO, laneP, wire, recvQ, got, reader, stop>>
Take == reader = "reading" /\ recvQ # <<>> /\ got' = Append(got, Head(recvQ)) /\ recvQ' = Tail(recvQ)
        /\ UNCHANGED <<toSendO, toSendP, laneO, laneP, wire, reader, rpc, held, stop>>
ReaderGoes == reader = "reading" /\ reader' = "gone" /\ UNCHANGED <<toSendO, toSendP, laneO, laneP, wire, recvQ, got, rpc, held, stop>>
StopAsk == stop = "no" /\ stop' = "asked" /\ UNCHANGED <<toSendO, toSendP, laneO, laneP, wire, recvQ, got, reader, rpc, held>>
StopDone == stop = "asked" /\ rpc = "exited" /\ stop' = "done" /\ UNCHANGED <<toSendO, toSendP, laneO, laneP, wire, recvQ, got, reader, rpc, held>>
Next == OfferO \/ OfferP \/ SendP \/ SendO \/ RecvRead \/ RecvPut \/ RecvQuit \/ Take \/ ReaderGoes \/ StopAsk \/ StopDone
Fair == WF_vars(RecvQuit) /\ WF_vars(StopDone) /\ WF_vars(RecvPut)
Spec == Init /\ [][Next]_vars /\ Fair

\* frames of one lane arrive in the order they were offered, none twice (the order FractalTrace relies on per source)
Lane(s, l) == SelectSeq(s, LAMBDA f : f[1] = l)
Increasing(s) == \A i, j \in DOMAIN s : i < j => s[i][2] < s[j][2]
LaneOrder == Increasing(Lane(got, "o")) /\ Increasing(Lane(got, "p"))
\* a stop that was asked for completes
StopCompletes == (stop = "asked") ~> (stop = "done")
=============================================================================
