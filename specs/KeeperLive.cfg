CONSTANTS
  Spaces = {"w1", "w2"}
  Order <- MCOrder2
  ChanCap = 1
SPECIFICATION FairSpec
PROPERTIES PoppedResolved PlottingEnds PlotterReturnsToIdle
CHECK_DEADLOCK FALSE
