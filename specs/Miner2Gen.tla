------------------------------- MODULE Miner2Gen -------------------------------
(* Round generator for Miner2.tla (the chia miner on the cluster superior); the last record is a sentinel. *)
EXTENDS Integers, Sequences, TLC, Json
CONSTANT GenLen
VARIABLE hist
RS(X) == RandomElement(IF Len(hist) >= 0 THEN X ELSE {})
QN == <<"qa", "qb", "qc", "qd", "qe">>
Items == LET n == RS(2..5) IN [i \in 1..n |-> [q |-> QN[i], c |-> RS({"k1", "k2", "k3"}), off |-> RS({1, 1, 2, 2, 3}), bound |-> RS({TRUE, TRUE, FALSE})]]
Round(i) ==
  LET kind == RS({"plain", "plain", "plain", "plain", "tip", "same", "switched", "stop"})
  IN [a |-> "Round", h |-> i - (IF i > 1 /\ RS(1..4) = 1 THEN 1 ELSE 0), prev |-> "n" \o ToString(i),
      items |-> Items, nover |-> [o \in 1..4 |-> IF o = 1 THEN 0 ELSE RS({0, 1, 1, 2, 3})],
      tip |-> CASE kind = "tip" -> "better" [] kind = "same" -> "same" [] kind = "switched" -> "switched" [] OTHER -> "none",
      tipms |-> RS({300, 1500, 4000}), res |-> RS({"accept", "accept", "reject", "orphan"}), again |-> RS({0, 0, 1}),
      stopms |-> IF kind = "stop" THEN RS({500, 2000, 5000}) ELSE -1]
GInit == hist = <<>>
GNext == \E i \in 1..3 : hist' = Append(hist, Round(Len(hist) + 1))
Emit == Len(hist) = GenLen => PrintT(<<"BEHAVIOUR", ToJson(hist)>>)
=============================================================================
