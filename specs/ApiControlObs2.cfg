CONSTANTS
  Spaces = {"w1", "w2", "w3"}
  Order <- MCOrder
  ChanCap = 3
SPECIFICATION ASpec
CONSTRAINT QueueSmall
INVARIANTS MinerNeedsUnlocked

CHECK_DEADLOCK FALSE
