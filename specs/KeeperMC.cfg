CONSTANTS
  Spaces = {"w1", "w2", "w3"}
  Order <- MCOrder
  ChanCap = 2
SPECIFICATION Spec
CONSTRAINT QueueSmall
INVARIANTS TypeOK AtMostOnePlotting PlottingIsCurrent PendingKnown
PROPERTIES Documented AskedFor Withdrawn OnlyDeleteDeletes
CHECK_DEADLOCK FALSE
