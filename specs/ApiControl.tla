------------------------------- MODULE ApiControl -------------------------------
(***************************************************************************)
(* The gRPC handlers that control plotting and mining (api/spaces.v1.go:   *)
(* Plot / Mine / StopCapacitySpace(s)) as compositions of the keeper       *)
(* operations of Keeper.tla and of starting / stopping the PoC miner.      *)
(* This is the surface through which a user drives the state machine of    *)
(* C09: the trace specification ApiTrace.tla validates what the real       *)
(* handlers do to the real keeper against these compositions.              *)
(*                                                                         *)
(*   Mn    the PoC miner is started (pocMiner.Started())                   *)
(*   Lk    the wallet is locked (pocWallet.IsLocked()); a node starts with *)
(*         a locked wallet                                                 *)
(*                                                                         *)
(* What the handlers do, in their order:                                   *)
(*   Plot*   start the keeper if it is not started (the keeper refuses on  *)
(*           a locked wallet, which the handler ignores), then the action  *)
(*   Mine*   start the miner if it is not started, then the action.  The   *)
(*           miner's own start (pocminer/miner/miner.go OnStart) starts    *)
(*           the keeper if it is not started and fails if that fails (a    *)
(*           locked wallet); the handler does not look at the outcome      *)
(*   StopCapacitySpaces  stop the keeper, stop the miner, then Stop on     *)
(*           every space                                                   *)
(*   StopCapacitySpace   Stop on the space; if then no space is in the     *)
(*           mining state, stop the miner                                  *)
(*   LockWallet          refused while the miner is started (the miner     *)
(*           signs with the wallet's keys); a no-op on a locked wallet     *)
(*   UnlockWallet        success on an unlocked wallet whatever the        *)
(*           passphrase; otherwise the wallet decides                      *)
(* A bulk handler answers an internal error if any space refused.          *)
(* Remove and Delete are not reachable through these handlers.             *)
(***************************************************************************)
EXTENDS Keeper

VARIABLES Mn, Lk
avars == <<K, Mn, Lk>>

\* the keeper refuses to start on a locked wallet (capacity.go OnStart); the Plot handlers do not look at its answer: on a
\* locked wallet they queue the requests, answer success, and nothing is plotted until a later Plot call finds the
\* wallet unlocked
StartIfNot(k) == IF k.run \/ Lk THEN k ELSE StartK(k)
AllOk(rs) == \A i \in DOMAIN rs : rs[i][2] = "ok"
OneRes(k, w, a) == IF Known(k, w) THEN Res(k, w, a) ELSE "notfound"
BulkAnswer(k, a) == IF AllOk(BulkRes(k, States, a)) THEN "ok" ELSE "internal"
AnyMining(k) == \E v \in Spaces : Known(k, v) /\ k.st[v] = "mining"
\* a request that will end in the mining state is standing
MineStanding(k) == \/ \E i \in BagToSet(k.queue) \cup {k.chan[j] : j \in DOMAIN k.chan} : i[2]
                   \/ k.plt.pc # "idle" /\ k.plt.m

\* each handler: the keeper after it, the miner after it, its answer
HPlotAll(k, m)    == LET k1 == StartIfNot(k) IN [k |-> Bulk(k1, States, "Plot"), m |-> m, res |-> BulkAnswer(k1, "Plot")]
HPlotOne(k, m, w) == LET k1 == StartIfNot(k) IN [k |-> Act(k1, w, "Plot"), m |-> m, res |-> OneRes(k1, w, "Plot")]
\* the miner's start: a started miner stays; otherwise the keeper is started first if it is not, which a locked wallet
\* refuses - then the miner is not started either
MinerStart(k, m) == IF m \/ k.run THEN [k |-> k, m |-> TRUE]
                    ELSE IF Lk THEN [k |-> k, m |-> FALSE] ELSE [k |-> StartK(k), m |-> TRUE]
HMineAll(k, m)    == LET s == MinerStart(k, m) IN [k |-> Bulk(s.k, States, "Mine"), m |-> s.m, res |-> BulkAnswer(s.k, "Mine")]
HMineOne(k, m, w) == LET s == MinerStart(k, m) IN [k |-> Act(s.k, w, "Mine"), m |-> s.m, res |-> OneRes(s.k, w, "Mine")]
HStopAll(k, m)    == LET k1 == IF k.run THEN StopK(k) ELSE k IN [k |-> Bulk(k1, States, "Stop"), m |-> FALSE, res |-> BulkAnswer(k1, "Stop")]
HStopOne(k, m, w) == LET k2 == Act(k, w, "Stop") IN
                     [k |-> k2, m |-> IF Known(k, w) /\ ~AnyMining(k2) THEN FALSE ELSE m, res |-> OneRes(k, w, "Stop")]

\* the same in two parts, for the trace specification: what a handler does to the keeper's (and the miner's) running
\* state before it acts, and the keeper action with its answer
Pre(call, k) == IF call \in {"PlotAll", "PlotOne"} THEN StartIfNot(k)
                ELSE IF call \in {"MineAll", "MineOne"} THEN MinerStart(k, Mn).k
                ELSE IF call = "StopAll" /\ k.run THEN StopK(k) ELSE k
ActPart(call, k, w) == CASE call = "PlotAll" -> [k |-> Bulk(k, States, "Plot"), res |-> BulkAnswer(k, "Plot")]
                         [] call = "MineAll" -> [k |-> Bulk(k, States, "Mine"), res |-> BulkAnswer(k, "Mine")]
                         [] call = "StopAll" -> [k |-> Bulk(k, States, "Stop"), res |-> BulkAnswer(k, "Stop")]
                         [] call = "PlotOne" -> [k |-> Act(k, w, "Plot"), res |-> OneRes(k, w, "Plot")]
                         [] call = "MineOne" -> [k |-> Act(k, w, "Mine"), res |-> OneRes(k, w, "Mine")]
                         [] call = "StopOne" -> [k |-> Act(k, w, "Stop"), res |-> OneRes(k, w, "Stop")]
Calls == {"PlotAll", "PlotOne", "MineAll", "MineOne", "StopAll", "StopOne"}
H(call, k, m, w) == CASE call = "PlotAll" -> HPlotAll(k, m) [] call = "PlotOne" -> HPlotOne(k, m, w)
                      [] call = "MineAll" -> HMineAll(k, m) [] call = "MineOne" -> HMineOne(k, m, w)
                      [] call = "StopAll" -> HStopAll(k, m) [] call = "StopOne" -> HStopOne(k, m, w)
\* the environment does not stop the keeper between the plotter's pop and its first step (which of the two wins is the
\* scheduler's choice); a full request channel refuses a request (the bulk handlers then answer an internal error)
CanCall(call, k, w) == call = "StopAll" /\ k.run => k.plt.pc # "popped"

TwoParts == \A call \in Calls, w \in Spaces : H(call, K, Mn, w).k = ActPart(call, Pre(call, K), w).k /\ H(call, K, Mn, w).res = ActPart(call, Pre(call, K), w).res

\* the wallet handlers: the lock after the call and the answer
HLock(m, l) == IF l THEN [l |-> TRUE, res |-> "ok"] ELSE IF m THEN [l |-> FALSE, res |-> "mining"] ELSE [l |-> TRUE, res |-> "ok"]
HUnlock(l, good) == IF ~l THEN [l |-> FALSE, res |-> "ok"] ELSE IF good THEN [l |-> FALSE, res |-> "ok"] ELSE [l |-> TRUE, res |-> "walleterr"]

AInit == Init /\ Mn = FALSE /\ Lk = TRUE
Plotter == \/ CanRecv(K) /\ K' = Recv(K)
           \/ \E w \in Spaces, m \in BOOLEAN : CanPop(K, w, m) /\ K' = Pop(K, w, m)
           \/ CanStep1(K) /\ K' = Step1(K)
           \/ \E o \in {"complete", "aborted"} : CanPlotEnd(K) /\ K' = PlotEnd(K, o)
           \/ CanStep3(K) /\ K' = Step3(K)
ANext == \/ \E call \in Calls, w \in Spaces : CanCall(call, K, w) /\ K' = H(call, K, Mn, w).k /\ Mn' = H(call, K, Mn, w).m /\ UNCHANGED Lk
         \/ Lk' = HLock(Mn, Lk).l /\ UNCHANGED <<K, Mn>>
         \/ \E good \in BOOLEAN : Lk' = HUnlock(Lk, good).l /\ UNCHANGED <<K, Mn>>
         \/ Plotter /\ UNCHANGED <<Mn, Lk>>
ASpec == AInit /\ [][ANext]_avars

(* ------------------------------ properties ------------------------------ *)
\* the keeper's invariants and action properties (C09) hold when it is driven through the handlers: those of Keeper.tla
\* are checked on this specification too (ApiControl.cfg)
\* After StopCapacitySpaces nothing is plotted or mined until asked again: no space is plotting or mining, no request stands
Quiet(k) == /\ \A w \in Spaces : k.st[w] \notin {"plotting", "mining"}
            /\ k.chan = <<>> /\ BagCardinality(k.queue) = 0 /\ k.plt.pc = "idle" /\ ~k.run
StopAllQuiets == [][(K' = HStopAll(K, Mn).k /\ Mn' = FALSE /\ K.plt.pc # "popped") => Quiet(K') \/ K' = K]_avars
\* Mine* leaves the miner started unless the keeper had to be started for it and the wallet is locked
MineStartsMiner == [][\A w \in Spaces : (K' = HMineOne(K, Mn, w).k /\ Mn' = HMineOne(K, Mn, w).m) => Mn' \/ (Lk /\ ~K.run)]_avars
\* the miner is started only over a started keeper (StopCapacitySpaces stops both)
MinerOverKeeper == Mn => K.run
\* OBSERVATION (refuted, ApiControlObs.cfg): "a space is in the mining state only while the miner is started".
\* StopCapacitySpace(w) stops the miner when no space is mining at that moment although a Mine request of another
\* space is still standing; that space later reaches the mining state with the miner stopped.
MiningNeedsMiner == AnyMining(K) => Mn
\* the wallet is not locked under a started miner: once unlocked it stays unlocked for as long as the miner runs
LockRefusedWhileMining == [][Mn /\ ~Lk /\ Mn' => ~Lk']_avars
\* OBSERVATION (refuted, ApiControlObs2.cfg): "the miner runs only with an unlocked wallet".  The miner's start looks at the
\* wallet only through the keeper's start: over a keeper that is already started (started while the wallet was unlocked; the
\* wallet may be locked again while the miner is not started) the miner starts on a locked wallet, and a block found
\* cannot be signed until UnlockWallet.
MinerNeedsUnlocked == Mn => ~Lk
\* the keeper is started only on an unlocked wallet (it may be locked afterwards, while the miner is not started)
KeeperStartsUnlocked == [][~K.run /\ K'.run => ~Lk]_avars
\* what does hold: a mining space without a started miner was standing when a StopCapacitySpace stopped the miner
MinerOffOnlyByStop == [][Mn /\ ~Mn' => ~AnyMining(K')]_avars
=============================================================================
