CONSTANTS
  Stoppers = {"stopws", "monitor", "close"}
  CloseRule = "always"
SPECIFICATION Spec
INVARIANT NoPanic
PROPERTY AllReturn
CHECK_DEADLOCK FALSE
