------------------------------- MODULE Miner -------------------------------
(***************************************************************************)
(* The sync PoC miner (poc/engine/pocminer/miner: miner.go, strategy.go).  *)
(* Serves C08.                                                             *)
(*                                                                         *)
(* A round is what the chain and the keeper give the miner for one         *)
(* template: height h, parent prev, template slot s0 (relative to the      *)
(* slot B at which the template is first served), the keeper's proofs in   *)
(* list order with their status                                            *)
(*     ok       no error, verifies for the challenge, passes binding       *)
(*     err      the keeper reports an error for the space                  *)
(*     unbound  verifies, fails binding                                    *)
(*     unverif  no error, passes binding, does not verify                  *)
(* and per slot offset 0..W-1 the proofs ordered by quality (best first)   *)
(* and how many of them exceed the target at that slot (outside 0..W-1     *)
(* nothing exceeds the target).                                            *)
(*                                                                         *)
(* The contract part (FirstElig, Best, ...) is what C08 demands of every   *)
(* submitted block; the mechanism part follows the code step by step:      *)
(* Serve (solveBlock steps 1-3), Try (one iteration of the slot loop of    *)
(* syncGetBestProof), Submit (submitBlock), Tick, TipBetter (the stale     *)
(* monitor), StopReq.                                                      *)
(* Mirrored details:                                                       *)
(*   M1  a better tip that arrives after the block was solved (while it    *)
(*       waits for its timestamp) does not withdraw it;                    *)
(*   M2  Stop waits for a solved block to be submitted;                    *)
(*   M3  one proof that does not verify fails the whole round.             *)
(***************************************************************************)
EXTENDS Integers, Sequences, FiniteSets, TLC

CONSTANTS Proofs, W, MaxNow, AllowAhead

None == [none |-> TRUE]
Slots == 0..(W - 1)

(* ------------------------------ contract ------------------------------ *)
MinI(a, b) == IF a < b THEN a ELSE b
MaxI(a, b) == IF a > b THEN a ELSE b
RangeOf(s) == {s[i] : i \in DOMAIN s}
Listed(r) == RangeOf(r.lst)
HasData(r) == {p \in Listed(r) : r.st[p] # "err"}
Cand(r) == {p \in Listed(r) : r.st[p] = "ok"}
Broken(r) == \E p \in Listed(r) : r.st[p] = "unverif"
Over(r, off) == IF off \in Slots THEN {r.order[off][i] : i \in 1..MinI(r.nover[off], Len(r.order[off]))} ELSE {}
Elig(r, off) == Cand(r) \cap Over(r, off)
EligSlots(r) == {off \in MaxI(r.s0, 0)..(W - 1) : Elig(r, off) # {}}
HasElig(r) == EligSlots(r) # {} /\ ~Broken(r)
FirstElig(r) == CHOOSE off \in EligSlots(r) : \A o \in EligSlots(r) : off <= o
\* best quality among the proofs that may win at all
Best(r, off) == LET idx == {i \in 1..Len(r.order[off]) : r.order[off][i] \in Cand(r)}
                    i0 == CHOOSE i \in idx : \A j \in idx : i <= j
                IN r.order[off][i0]
\* what a block for round r must be
RightBlock(r, off, p) == HasElig(r) /\ off = FirstElig(r) /\ p = Best(r, off)

(* ------------------------------ mechanism ------------------------------ *)
VARIABLE M
Init == M = [now |-> 0, pc |-> "idle", r |-> None, B |-> 0, ws |-> 0, stale |-> FALSE, blk |-> None, decided |-> 0,
             mined |-> {}, stopping |-> FALSE, last |-> None]

\* the code's choice at slot off: best of the valid bound proofs, then compared with the target
CodeBest(r, off) == Best(r, off)
Serve(r) == /\ M.pc = "idle" /\ ~M.stopping
            /\ IF r.h \in M.mined THEN M' = [M EXCEPT !.last = None]                    \* step 3: double mining refused
               ELSE M' = [M EXCEPT !.pc = "search", !.r = r, !.B = M.now, !.ws = r.s0, !.stale = FALSE, !.last = None]
Off == M.ws
Try == /\ M.pc = "search"
       /\ IF M.stopping \/ M.stale \/ Broken(M.r) \/ Cand(M.r) = {} THEN M' = [M EXCEPT !.pc = "idle", !.r = None, !.last = None]
          ELSE /\ M.B + M.ws <= M.now + AllowAhead
               /\ IF Off \in Slots /\ CodeBest(M.r, Off) \in Over(M.r, Off)
                  THEN M' = [M EXCEPT !.pc = "hold", !.blk = [h |-> M.r.h, prev |-> M.r.prev, off |-> Off, p |-> CodeBest(M.r, Off)],
                                      !.decided = M.now, !.last = None]
                  ELSE IF M.ws >= W THEN M' = [M EXCEPT !.pc = "idle", !.r = None, !.last = None]      \* the scripted window is over
                  ELSE M' = [M EXCEPT !.ws = @ + 1, !.last = None]
Tick == M.now < MaxNow /\ M' = [M EXCEPT !.now = @ + 1, !.last = None]
TipBetter == M.pc \in {"search", "hold"} /\ M' = [M EXCEPT !.stale = TRUE, !.last = None]
StopReq == ~M.stopping /\ M' = [M EXCEPT !.stopping = TRUE, !.last = None]
Submit(res) == /\ M.pc = "hold" /\ M.now > M.B + M.blk.off                       \* strictly after the timestamp
               /\ M' = [M EXCEPT !.pc = "idle", !.r = None, !.blk = None,
                                 !.mined = IF res = "accept" THEN @ \cup {M.blk.h} ELSE @,
                                 !.last = [blk |-> M.blk, r |-> M.r, at |-> M.now, B |-> M.B, decided |-> M.decided, staleAtDecision |-> FALSE, res |-> res,
                                           minedBefore |-> M.blk.h \in M.mined]]

(* ------------------------------ properties (C08), on every submission ------------------------------ *)
Sub == M.last # None
OnlyWinning == Sub => RightBlock(M.last.r, M.last.blk.off, M.last.blk.p)
NotEarly == Sub => M.last.at > M.last.B + M.last.blk.off
LookAhead == Sub => M.last.B + M.last.blk.off <= M.last.decided + AllowAhead
NoDoubleMining == Sub => ~M.last.minedBefore
\* a round that went stale or was stopped before it was solved submits nothing
AbandonOnStale == [][(M.pc = "search" /\ (M.stale \/ M.stopping)) => M'.pc # "hold"]_M
=============================================================================
