CONSTANTS
  Spaces = {"w1", "w2", "w3"}
  Order <- TOrder
  ChanCap = 1024
INIT TInit
NEXT TNext
CONSTRAINT Mark
POSTCONDITION Done
CHECK_DEADLOCK FALSE
