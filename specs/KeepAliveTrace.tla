------------------------------- MODULE KeepAliveTrace -------------------------------
(* Trace validation for KeepAlive.tla: each recorded event is one scenario run on two real connection.Conn ends through
   a forwarder that can go dark; the observed stop times (tenths of a tick, -1: still running at the horizon) must be
   those of the specification, within a tolerance of a tick and a half (timers, scheduling). *)
EXTENDS KeepAlive, Json, Sequences, Integers
Traces == ndJsonDeserialize("traces.ndjson")
VARIABLES tr, l
ASSUME TLCSet(1, {}) /\ TLCSet(2, [i \in DOMAIN Traces |-> 0])
Tol == 15
Close(obs10, exp) == IF exp = 0 THEN obs10 = -1 ELSE obs10 # -1 /\ obs10 >= exp * 10 - Tol /\ obs10 <= exp * 10 + Tol
ScOf(f) == [mode |-> [e \in Ends |-> IF e = "A" THEN f.modeA ELSE f.modeB], hole |-> f.hole, data |-> f.data]
\* The path goes dark half a tick after the events of tick c.hole.  When frames are sent in that very tick (pings and data go
\* out at even ticks) the two are 50 ms apart in real time: on a loaded machine the frames may lose that race, which is
\* the scenario with the path dark one tick earlier.  Both orders are behaviours of the specification.
Matches(e, o) == Close(e.stopA10, o["A"]) /\ Close(e.stopB10, o["B"])
StepOK(e) == LET c == ScOf(e.frame) IN
             /\ c \in Scenarios
             /\ e.ok = TRUE
             /\ IF Matches(e, Outcome(c)) THEN TRUE
                ELSE c.hole > 0 /\ c.hole % 2 = 0 /\ Matches(e, Outcome([c EXCEPT !.hole = c.hole - 1]))
TInit == sc \in Scenarios /\ S = S0 /\ tr \in DOMAIN Traces /\ l = 1
TNext == /\ l <= Len(Traces[tr].ev) /\ StepOK(Traces[tr].ev[l])
         /\ l' = l + 1 /\ UNCHANGED <<tr, sc, S>>
Mark == /\ (IF l - 1 > TLCGet(2)[tr] THEN TLCSet(2, [TLCGet(2) EXCEPT ![tr] = l - 1]) ELSE TRUE)
        /\ (IF l = Len(Traces[tr].ev) + 1 THEN TLCSet(1, TLCGet(1) \cup {tr}) ELSE TRUE)
Done == PrintT(<<"ACCEPTED", ToJson(TLCGet(1))>>) /\ PrintT(<<"HW", ToJson(TLCGet(2))>>)
=============================================================================
