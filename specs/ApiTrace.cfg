CONSTANTS
  Spaces = {"w1", "w2", "w3"}
  Order <- TOrder
  ChanCap = 1024
INIT ATInit
NEXT ATNext
CONSTRAINT Mark
POSTCONDITION ADone
CHECK_DEADLOCK FALSE
