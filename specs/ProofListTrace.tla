------------------------------- MODULE ProofListTrace -------------------------------
(* Trace validation for ProofList.tla: what the real DecodeProofList returned for a concretisation of each case. *)
EXTENDS ProofList, Json, SequencesExt
Traces == ndJsonDeserialize("traces.ndjson")
VARIABLES tr, l
ASSUME TLCSet(1, {}) /\ TLCSet(2, [i \in DOMAIN Traces |-> 0])
Step(e) == LET x == Expect(e.frame) IN
           /\ e.a = "ProofList"
           /\ e.ok = x.ok
           /\ (x.ok => /\ {p[1] : p \in ToSet(e.pairs)} = DOMAIN x.m
                       /\ \A p \in ToSet(e.pairs) : p[2] = x.m[p[1]]
                       /\ Len(e.pairs) = Cardinality(DOMAIN x.m))
TInit == case = NoCase /\ verdict = [ok |-> FALSE, m |-> <<>>] /\ tr \in DOMAIN Traces /\ l = 1
TNext == /\ l <= Len(Traces[tr].ev) /\ Step(Traces[tr].ev[l])
         /\ l' = l + 1 /\ UNCHANGED <<tr, case, verdict>>
Mark == /\ (IF l - 1 > TLCGet(2)[tr] THEN TLCSet(2, [TLCGet(2) EXCEPT ![tr] = l - 1]) ELSE TRUE)
        /\ (IF l = Len(Traces[tr].ev) + 1 THEN TLCSet(1, TLCGet(1) \cup {tr}) ELSE TRUE)
Done == PrintT(<<"ACCEPTED", ToJson(TLCGet(1))>>) /\ PrintT(<<"HW", ToJson(TLCGet(2))>>)
=============================================================================
