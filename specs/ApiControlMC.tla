------------------------------- MODULE ApiControlMC -------------------------------
EXTENDS ApiControl
MCOrder == <<"w1", "w2", "w3">>
MCOrder2 == <<"w1", "w2">>
QueueSmall == BagCardinality(K.queue) <= 3
QueueTiny == BagCardinality(K.queue) <= 2 /\ Len(K.chan) <= 2
=============================================================================
