CONSTANTS
  Collectors = {"c1", "c2"}
  Reporters = {"p1", "p2"}
  Cap = 2
SPECIFICATION Spec
INVARIANT NoWedge
CHECK_DEADLOCK FALSE
