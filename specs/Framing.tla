------------------------------- MODULE Framing -------------------------------
(***************************************************************************)
(* Length-prefixed framing of the cluster connection                        *)
(* (fractal/connection/conn.go receiveRoutine, fractal/reader.go).          *)
(* Serves the second half of C16: bytes received from a peer yield a        *)
(* message or an error and never exhaust memory.                            *)
(*                                                                         *)
(* A case is what a peer writes on the socket: a 4-byte length prefix of a  *)
(* class relative to the receive limit, how much of the announced payload   *)
(* follows, and whether a well-formed frame follows or the peer closes.     *)
(* Expect fixes what the receiving side may hand to its reader, whether the *)
(* connection survives, and that it never allocates for a length beyond the *)
(* limit.  The case set is finite; TLC enumerates it and every case is run  *)
(* on a real connection.Conn over a socket pair.                            *)
(***************************************************************************)
EXTENDS Naturals, Sequences, TLC

VARIABLE case, verdict
Lens == {"zero", "one", "small", "limit", "limitplus1", "huge"}
Within(l) == l \in {"one", "small", "limit"}
Cases ==    {[len |-> l, sent |-> "all", next |-> n] : l \in {"zero", "one", "small", "limit"}, n \in {"good", "close"}}
       \cup {[len |-> l, sent |-> s, next |-> "close"] : l \in {"one", "small", "limit"}, s \in {"short", "none"}}
       \cup {[len |-> l, sent |-> s, next |-> n] : l \in {"limitplus1", "huge"}, s \in {"none", "short"}, n \in {"good", "close"}}

\* deliv: what the reader is handed, in order ("payload" = the announced bytes, unaltered; "good" = the frame that followed)
Expect(c) ==
  IF c.len = "zero" THEN [deliv |-> IF c.next = "good" THEN <<"good">> ELSE <<>>, alive |-> c.next = "good", bounded |-> TRUE]   \* a control frame carries nothing
  ELSE IF Within(c.len) /\ c.sent = "all"
       THEN [deliv |-> IF c.next = "good" THEN <<"payload", "good">> ELSE <<"payload">>, alive |-> c.next = "good", bounded |-> TRUE]
  ELSE IF Within(c.len) THEN [deliv |-> <<>>, alive |-> FALSE, bounded |-> TRUE]            \* truncated by the peer's close
  ELSE [deliv |-> <<>>, alive |-> FALSE, bounded |-> TRUE]                                   \* beyond the limit: refused, connection dropped, nothing read for it

NoCase == [len |-> "-", sent |-> "-", next |-> "-"]
Init == case = NoCase /\ verdict = NoCase
Next == \E c \in Cases : case = NoCase /\ case' = c /\ verdict' = Expect(c)
Spec == Init /\ [][Next]_<<case, verdict>>
\* nothing beyond the limit is ever handed on, and memory stays bounded in every case
NeverOversize == case # NoCase /\ case.len \in {"limitplus1", "huge"} => verdict.deliv = <<>> /\ ~verdict.alive
AlwaysBounded == case # NoCase => verdict.bounded
=============================================================================
