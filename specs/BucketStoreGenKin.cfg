CONSTANTS
  Names <- GNames
  Keys <- GKeys
  ScanPrefixes <- GPre
  Vals <- GVals
  BadChars <- MCBad
  MaxDepth = 3
  GenLen = 24
  Exhaustive = FALSE
INIT GInitKin
NEXT GNext
INVARIANT Emit
CHECK_DEADLOCK FALSE
