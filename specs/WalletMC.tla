------------------------------- MODULE WalletMC -------------------------------
(* Exhaustive configuration of Wallet: one full wallet and one import target, two seeds, two keys per branch. *)
EXTENDS Wallet
MCBad == {"bad"}
=============================================================================
