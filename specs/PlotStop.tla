------------------------------- MODULE PlotStop -------------------------------
(***************************************************************************)
(* Stopping a running plot of the native plot engine                        *)
(* (poc/engine/massdb/massdb.v1/massdb.v1.go: Plot, StopPlot, executePlot)  *)
(* when more than one caller asks - the keeper does so on two paths: StopWS *)
(* of the plotting space (under its state lock) and the plotter's monitor   *)
(* goroutine when the keeper is stopped (space_plotter.go:186-192).         *)
(* Serves C13.                                                              *)
(*                                                                          *)
(*   plotting   the engine's atomic flag                                    *)
(*   ch         the stop channel of the running plot: open / closed         *)
(*   plot       the plot goroutine: running / ended                         *)
(*   pc[s]      a StopPlot call: idle -> checked (found plotting set and    *)
(*              spawned its goroutine) -> closed (channel dealt with) ->    *)
(*              done (waited for the plot to end, answered)                 *)
(*   panicked   a close of a closed channel happened                        *)
(*                                                                          *)
(* CloseRule = "always": every StopPlot goroutine closes the channel (the   *)
(* pinned code); "first": only the one that wins an atomic flag (repaired). *)
(***************************************************************************)
EXTENDS Naturals, FiniteSets
CONSTANTS Stoppers, CloseRule,
          StartRule       \* "flagfirst": Plot sets the plotting flag and creates the stop channel afterwards (pinned code);
                          \* "together": both become visible in one step (repaired)
VARIABLES plotting, ch, plot, pc, closing, panicked
vars == <<plotting, ch, plot, pc, closing, panicked>>

\* the plot is being started: with "flagfirst" the flag is already set and there is no channel yet
Init == /\ pc = [s \in Stoppers |-> "idle"] /\ closing = FALSE /\ panicked = FALSE
        /\ IF StartRule = "flagfirst" THEN plotting = TRUE /\ ch = "none" /\ plot = "starting"
           ELSE plotting = TRUE /\ ch = "open" /\ plot = "running"
\* Plot()'s second half (flagfirst only): the channel is created, the plot goroutine starts
PlotStarts == /\ plot = "starting" /\ ~panicked /\ plot' = "running" /\ ch' = "open"
              /\ UNCHANGED <<plotting, pc, closing, panicked>>

\* StopPlot(): the flag is read; not plotting: answered at once
Check(s) == /\ pc[s] = "idle" /\ ~panicked
            /\ pc' = [pc EXCEPT ![s] = IF plotting THEN "checked" ELSE "done"]
            /\ UNCHANGED <<plotting, ch, plot, closing, panicked>>
\* the spawned goroutine deals with the channel
Close(s) == /\ pc[s] = "checked" /\ ~panicked
            /\ IF CloseRule = "always" THEN
                 /\ (IF ch \in {"closed", "none"} THEN panicked' = TRUE /\ ch' = ch ELSE ch' = "closed" /\ panicked' = panicked)
                 /\ closing' = closing
               ELSE
                 /\ (IF closing THEN ch' = ch /\ panicked' = panicked
                     ELSE IF ch = "none" THEN ch' = ch /\ panicked' = TRUE          \* close of a nil channel
                     ELSE ch' = "closed" /\ panicked' = panicked)
                 /\ closing' = TRUE
            /\ pc' = [pc EXCEPT ![s] = "closed"]
            /\ UNCHANGED <<plotting, plot>>
\* wg.Wait(): returns once the plot goroutine has ended
Wait(s) == /\ pc[s] = "closed" /\ plot = "ended" /\ ~panicked
           /\ pc' = [pc EXCEPT ![s] = "done"]
           /\ UNCHANGED <<plotting, ch, plot, closing, panicked>>
\* the plot goroutine sees the closed channel at its next window boundary, clears the flag and ends
PlotEnds == /\ plot = "running" /\ ch = "closed" /\ ~panicked
            /\ plot' = "ended" /\ plotting' = FALSE
            /\ UNCHANGED <<ch, pc, closing, panicked>>
Next == (\E s \in Stoppers : Check(s) \/ Close(s) \/ Wait(s)) \/ PlotEnds \/ PlotStarts
Spec == Init /\ [][Next]_vars /\ WF_vars(Next)

NoPanic == ~panicked
\* every request to stop returns, and the plot has ended by then
AllReturn == <>(\A s \in Stoppers : pc[s] = "done")
=============================================================================
