------------------------------- MODULE HDKeyMC -------------------------------
EXTENDS HDKey, Json
Emit == case # NoCase => PrintT(<<"BEHAVIOUR", ToJson(<<[frame |-> case, expect |-> verdict]>>)>>)
=============================================================================
