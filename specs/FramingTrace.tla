------------------------------- MODULE FramingTrace -------------------------------
(* Trace validation for Framing.tla: what a real connection.Conn handed to its reader for each case. *)
EXTENDS Framing, Json
Traces == ndJsonDeserialize("traces.ndjson")
VARIABLES tr, l
ASSUME TLCSet(1, {}) /\ TLCSet(2, [i \in DOMAIN Traces |-> 0])
Step(e) == LET x == Expect(e.frame) IN
           /\ e.a = "Frame"
           /\ e.deliv = x.deliv                 \* exactly the frames that were sent whole, unaltered, in order
           /\ e.alive = x.alive                 \* the connection is dropped exactly when it must be
           /\ e.bounded = TRUE                  \* no allocation for an announced length beyond the limit
TInit == case = NoCase /\ verdict = NoCase /\ tr \in DOMAIN Traces /\ l = 1
TNext == /\ l <= Len(Traces[tr].ev) /\ Step(Traces[tr].ev[l])
         /\ l' = l + 1 /\ UNCHANGED <<tr, case, verdict>>
Mark == /\ (IF l - 1 > TLCGet(2)[tr] THEN TLCSet(2, [TLCGet(2) EXCEPT ![tr] = l - 1]) ELSE TRUE)
        /\ (IF l = Len(Traces[tr].ev) + 1 THEN TLCSet(1, TLCGet(1) \cup {tr}) ELSE TRUE)
Done == PrintT(<<"ACCEPTED", ToJson(TLCGet(1))>>) /\ PrintT(<<"HW", ToJson(TLCGet(2))>>)
=============================================================================
