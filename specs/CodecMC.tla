------------------------------- MODULE CodecMC -------------------------------
EXTENDS Codec, Json
\* prints every frame with its outcome: the complete state graph is the test set
Emit == frame # NoFrame => PrintT(<<"BEHAVIOUR", ToJson(<<[frame |-> frame, outcome |-> outcome]>>)>>)
=============================================================================
