------------------------------- MODULE GatewayTrace -------------------------------
(* Trace validation for Gateway.tla: each recorded case must show what the specification fixes for it. *)
EXTENDS Gateway, Json, SequencesExt
Traces == ndJsonDeserialize("traces.ndjson")
VARIABLES tr, l
ASSUME TLCSet(1, {}) /\ TLCSet(2, [i \in DOMAIN Traces |-> 0])
CaseOf(f) == IF f.kind = "admit" THEN [f EXCEPT !.wl = ToSet(@), !.lans = ToSet(@)] ELSE f
Step(e) == LET c == CaseOf(e.frame) x == Expect(c) IN
  CASE c.kind = "admit"  -> /\ ("cfgerr" \in DOMAIN e => c.junk = "wl")   \* only an ill-formed whitelist entry refuses the configuration
                            /\ IF "cfgerr" \in DOMAIN e THEN TRUE         \* (nothing is served then)
                               ELSE /\ (e.served => x.mayServe)                 \* served only if configured
                                    /\ (e.served <=> e.handler)                 \* refused => the handler did not run
                                    /\ (~e.served => e.status = 403)
                                    /\ e.allowfn = e.served                      \* the predicate and the handler agree
    [] c.kind = "render" -> /\ e.ok = x.ok
                            /\ (x.ok => e.text = x.text /\ e.back = TRUE)   \* exact canonical text, parses back
    [] c.kind = "target" -> e.targetok = TRUE /\ e.addrok = TRUE /\ e.fieldsok = TRUE
    \* the started server has listening sockets on its port, all of them on the loopback address, and answers there
    [] c.kind = "listen" -> e.started = TRUE /\ e.bound # <<>> /\ ToSet(e.bound) \subseteq x.bound /\ e.dial = TRUE
TInit == case = NoCase /\ verdict = NoCase /\ tr \in DOMAIN Traces /\ l = 1
TNext == /\ l <= Len(Traces[tr].ev) /\ Step(Traces[tr].ev[l])
         /\ l' = l + 1 /\ UNCHANGED <<tr, case, verdict>>
Mark == /\ (IF l - 1 > TLCGet(2)[tr] THEN TLCSet(2, [TLCGet(2) EXCEPT ![tr] = l - 1]) ELSE TRUE)
        /\ (IF l = Len(Traces[tr].ev) + 1 THEN TLCSet(1, TLCGet(1) \cup {tr}) ELSE TRUE)
Done == PrintT(<<"ACCEPTED", ToJson(TLCGet(1))>>) /\ PrintT(<<"HW", ToJson(TLCGet(2))>>)
=============================================================================
