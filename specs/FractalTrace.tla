------------------------------- MODULE FractalTrace -------------------------------
(***************************************************************************)
(* Trace validation for Fractal.tla.  Each recorded step is a public call  *)
(* on the real LocalSuperior / CollectorPool / PersistentRemoteSuperior /  *)
(* scripted collectors, followed by what every leaf has been handed so far *)
(* (cumulative) and, for Take, what the waiter read.                       *)
(* Hand-overs run on goroutines of the superior's worker pool, so a        *)
(* recorded count may lag: during the trace it must never exceed the       *)
(* specification's count (nothing handed over that should not be, nothing  *)
(* twice) and at the End it must equal it (nothing lost).                  *)
(***************************************************************************)
EXTENDS Fractal, Json, SequencesExt
Traces == ndJsonDeserialize("traces.ndjson")
VARIABLES tr, l
ASSUME TLCSet(1, {}) /\ TLCSet(2, [i \in DOMAIN Traces |-> 0])
TRHome == [r \in Relays |-> IF r = "r3" THEN "r1" ELSE "S"]
THome == [c \in Leaves |-> IF c \in {"c1", "c2", "l1"} THEN "S" ELSE IF c \in {"c3", "c4"} THEN "r1" ELSE IF c = "c5" THEN "r2" ELSE "r3"]

Seen(e, c, t) == IF c \in DOMAIN e.got /\ t \in DOMAIN e.got[c] THEN e.got[c][t] ELSE 0
Clean(e) == \A c \in DOMAIN e.got : \A k \in DOMAIN e.got[c] : k \in TaskIds      \* nothing unknown, nothing altered
AtMost(e, x) == Clean(e) /\ \A c \in Leaves, t \in TaskIds : Seen(e, c, t) <= x.got[c][t]
Exactly(e, x) == Clean(e) /\ \A c \in Leaves, t \in TaskIds : Seen(e, c, t) = x.got[c][t]
RECURSIVE ReportAll(_, _, _, _)
ReportAll(x, c, t, ps) == IF ps = <<>> THEN x ELSE ReportAll(Report(x, c, t, Head(ps)), c, t, Tail(ps))

Step(e) ==
  \/ e.a = "Subscribe" /\ e.res = "ok" /\ CanSubscribe(R, e.c) /\ (e.c \in Auto => ~Subscribed(R, e.c)) /\ R' = Subscribe(R, e.c) /\ AtMost(e, R')
  \/ e.a = "Unsubscribe" /\ e.res = "ok" /\ R' = Unsubscribe(R, e.c) /\ AtMost(e, R')
  \/ e.a = "Connect" /\ e.res = "ok" /\ CanConnect(R, e.r) /\ R' = Connect(R, e.r) /\ AtMost(e, R')
  \/ e.a = "Disconnect" /\ e.res = "ok" /\ R' = Disconnect(R, e.r) /\ AtMost(e, R')
  \/ e.a = "Outage" /\ e.res = "ok" /\ CanOutage(R, e.r) /\ R' = Outage(R, e.r) /\ AtMost(e, R')
  \/ e.a = "Recover" /\ e.res = "ok" /\ CanRecover(R, e.r) /\ R' = Recover(R, e.r) /\ AtMost(e, R')
  \/ e.a = "AddB" /\ e.res = "ok" /\ CanAdd(R, e.t) /\ R' = AddBroadcast(R, e.t) /\ AtMost(e, R')
  \/ e.a = "AddT" /\ e.res = "ok" /\ CanAdd(R, e.t) /\ R' = AddTarget(R, e.t, e.tg) /\ AtMost(e, R')
  \* a report over a broken link is lost ("lost": refused by the relay's writer, or accepted by a relay further down and
  \* dropped on the way); over links that are up it is accepted
  \/ e.a = "Report" /\ e.res = (IF LinkUp(R, Home[e.c]) THEN "ok" ELSE "lost") /\ CanReport(R, e.c) /\ R' = ReportAll(R, e.c, e.t, e.ps) /\ AtMost(e, R')
  \/ /\ e.a = "Take" /\ R.tasks[e.t] # NoTask
     /\ LET ss == {s \in Sources : CanTake(R, e.t, s)} IN
        IF ss = {} THEN e.res = (IF R.tasks[e.t].open THEN "empty" ELSE "closed") /\ R' = R
        \* the report read is the oldest unread one of its source, unmodified, tagged with that source
        ELSE e.res = "item" /\ e.src \in ss /\ e.p = Head(R.tasks[e.t].q[e.src]) /\ R' = Take(R, e.t, e.src)
     /\ AtMost(e, R')
  \/ e.a = "Remove" /\ e.res = "ok" /\ R' = RemoveTask(R, e.t) /\ AtMost(e, R')
  \* every relay and the pool stopped promptly; nothing was lost on the way
  \/ e.a = "End" /\ e.res = "ok" /\ R' = R /\ Exactly(e, R)

TInit == Init /\ tr \in DOMAIN Traces /\ l = 1
TNext == /\ l <= Len(Traces[tr].ev) /\ Step(Traces[tr].ev[l])
         /\ l' = l + 1 /\ UNCHANGED tr
Mark == /\ (IF l - 1 > TLCGet(2)[tr] THEN TLCSet(2, [TLCGet(2) EXCEPT ![tr] = l - 1]) ELSE TRUE)
        /\ (IF l = Len(Traces[tr].ev) + 1 THEN TLCSet(1, TLCGet(1) \cup {tr}) ELSE TRUE)
Done == PrintT(<<"ACCEPTED", ToJson(TLCGet(1))>>) /\ PrintT(<<"HW", ToJson(TLCGet(2))>>)
=============================================================================
