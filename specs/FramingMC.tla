------------------------------- MODULE FramingMC -------------------------------
EXTENDS Framing, Json
Emit == case # NoCase => PrintT(<<"BEHAVIOUR", ToJson(<<[frame |-> case]>>)>>)
=============================================================================
